#!/usr/bin/env python3
"""Regenerates seeded/README.md from the meta.json files."""
import glob, json, os
rows = []
for f in sorted(glob.glob('/verif/seeded/*/meta.json')):
    m = json.load(open(f))
    name = os.path.basename(os.path.dirname(f))
    need = ' '.join(m.get('needs_to_manifest', '').split())[:420]
    checks = '; '.join('%s: %s' % (c, 'VIOLATION (%s)' % v['first_clause'].split()[0].replace('clause=', '') if v['exit'] == 1
                                     else 'no violation' + (' (DRIFT)' if v['drift'] else '')) for c, v in m['checks'].items())
    rows.append((name, m['property'], m.get('kind', 'breaking'), checks, need))
out = ['# Seeded changes', '',
       'Changes to the package produced by independent sub-agents that were given only the text of one property and a scratch',
       'worktree (nothing from /verif). Each was confirmed with tools/confirm_seed.py in a fresh worktree: the patch applies to',
       "/repo's HEAD, the pinned baseline tests still pass, demo.py exits 0 without and non-zero with the patch; then the listed",
       'checks were run against the patched worktree (VERIF_REPO). None of these patches is ever applied to /repo.', '',
       '| dir | property | kind | verdict of my checks | what it needs to manifest |', '|---|---|---|---|---|']
for r in rows:
    out.append('| %s | %s | %s | %s | %s |' % r)
open('/verif/seeded/README.md', 'w').write('\n'.join(out) + '\n')
print(len(rows), 'entries')
