#!/bin/sh
# usage: run_all.sh <tier> [ids...]  -- runs checks one after another, prints a one-line summary each
tier=$1; shift
ids=${@:-C01 C02 C03 C04 C05 C06 C07 C08 C09 C10 C11 C12 C13 C14 C15 C16 C17 C18 C19 C20}
for p in $ids; do
  s=$(date +%s)
  out=$(bin/check $p --tier $tier 2>&1); rc=$?
  e=$(date +%s)
  echo "$p rc=$rc $((e-s))s $(echo "$out" | tail -1 | cut -c1-220)"
  if [ $rc -ne 0 ]; then echo "$out" | grep -E "clause=|MACHINERY" | head -6 | cut -c1-1200; fi
  echo "$out" | grep -E "^DRIFT" | head -2 | cut -c1-400
done
