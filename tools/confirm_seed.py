#!/usr/bin/env python3
"""Confirm a seeded breaking change produced by an independent sub-agent and file it under
/verif/seeded/<name>/.

usage: confirm_seed.py <property id> <source dir with patch.diff demo.py notes.txt> [name] [checks...]

Steps (all in a fresh scratch worktree outside /repo and /verif, removed afterwards):
  1. the patch applies to /repo's HEAD;
  2. the pinned baseline tests still pass with it (failures must be within the baseline's
     always-fail list);
  3. demo.py exits 0 without the patch and non-zero with it;
  4. the listed checks (default: the property's own) are run against the patched worktree
     (VERIF_REPO) and their verdicts recorded.
"""
import json, os, shutil, subprocess, sys, tempfile, time

pid, src = sys.argv[1], sys.argv[2]
name = sys.argv[3] if len(sys.argv) > 3 else pid
checks = sys.argv[4:] or [pid]
base = json.load(open('/root/.vp/BASELINE.json'))
stable = set(base['stable_pass'])
wt = tempfile.mkdtemp(prefix='seedwt-', dir='/tmp')
os.rmdir(wt)
run = lambda *a, **k: subprocess.run(*a, stdout=subprocess.PIPE, stderr=subprocess.STDOUT, text=True, **k)
try:
    r = run(['git', '-C', '/repo', 'worktree', 'add', '-q', '--detach', wt, 'HEAD'])
    assert r.returncode == 0, r.stdout
    env = dict(os.environ, PYTHONPATH=wt, PYTHONHASHSEED='0')
    demo = os.path.join(src, 'demo.py')
    d0 = run(['/venv/bin/python', demo], cwd=wt, env=env, timeout=1800)
    r = run(['git', '-C', wt, 'apply', os.path.join(src, 'patch.diff')])
    assert r.returncode == 0, 'patch does not apply: ' + r.stdout
    d1 = run(['/venv/bin/python', demo], cwd=wt, env=env, timeout=1800)
    junit = os.path.join(wt, 'junit.xml')
    t = run(['/venv/bin/python', '-m', 'pytest', '-q', '-p', 'no:cacheprovider', '--timeout=900',
             '--continue-on-collection-errors', '--junitxml=' + junit], cwd=wt, env=env, timeout=3000)
    import xml.etree.ElementTree as ET
    passed = set()
    for tc in ET.parse(junit).getroot().iter('testcase'):
        if not list(tc):
            passed.add('%s::%s' % (tc.get('classname'), tc.get('name')))
    missing = sorted(stable - passed)
    if missing:
        # hypothesis deadlines flake when the machine is loaded: re-run just the missing tests once, alone
        ids = ['%s.py::%s' % (m.split('::')[0].replace('.', '/'), m.split('::')[1]) for m in missing]
        junit2 = os.path.join(wt, 'junit2.xml')
        run(['/venv/bin/python', '-m', 'pytest', '-q', '-p', 'no:cacheprovider', '--timeout=900', '--junitxml=' + junit2] + ids,
            cwd=wt, env=env, timeout=3000)
        try:
            for tc in ET.parse(junit2).getroot().iter('testcase'):
                if not list(tc):
                    passed.add('%s::%s' % (tc.get('classname'), tc.get('name')))
        except Exception:  # noqa
            pass
        missing = sorted(stable - passed)
    verdicts = {}
    for c in checks:
        v = run(['/verif/bin/check', c, '--tier', 'quick'], cwd='/verif', env=dict(os.environ, VERIF_REPO=wt), timeout=3000)
        lines = v.stdout.splitlines()
        clause = next((l.strip()[:300] for l in lines if l.strip().startswith('clause=')), '')
        verdicts[c] = {'exit': v.returncode, 'violations': sum(1 for l in lines if l.startswith('VIOLATION')),
                       'drift': sum(1 for l in lines if l.startswith('DRIFT')), 'first_clause': clause}
    ok = d0.returncode == 0 and d1.returncode != 0 and not missing
    meta = {
        'property': pid, 'name': name,
        'confirmed': ok,
        'baseline_tests_still_passing': len(stable) - len(missing), 'baseline_tests_broken': missing,
        'demo_exit_without_patch': d0.returncode, 'demo_exit_with_patch': d1.returncode,
        'demo_output_with_patch': d1.stdout[-1500:],
        'needs_to_manifest': open(os.path.join(src, 'notes.txt')).read() if os.path.exists(os.path.join(src, 'notes.txt')) else '',
        'ran': ['git apply patch.diff in a scratch worktree of /repo HEAD', 'pytest (pinned baseline command) with PYTHONPATH=worktree',
                'python demo.py with and without the patch', 'VERIF_REPO=<worktree> bin/check <id> --tier quick'],
        'checks': verdicts,
        'repo_head': run(['git', '-C', '/repo', 'log', '--format=%h', '-1']).stdout.strip(),
        'at': time.strftime('%Y-%m-%dT%H:%M:%SZ', time.gmtime()),
    }
    print(json.dumps({k: meta[k] for k in ('property', 'name', 'confirmed', 'baseline_tests_broken', 'demo_exit_without_patch',
                                           'demo_exit_with_patch', 'checks')}, indent=1))
    if ok:
        dst = os.path.join('/verif/seeded', name)
        os.makedirs(dst, exist_ok=True)
        shutil.copy(os.path.join(src, 'patch.diff'), dst)
        shutil.copy(demo, dst)
        json.dump(meta, open(os.path.join(dst, 'meta.json'), 'w'), indent=1)
finally:
    subprocess.run(['git', '-C', '/repo', 'worktree', 'remove', '--force', wt], stdout=subprocess.DEVNULL, stderr=subprocess.DEVNULL)
    shutil.rmtree(wt, ignore_errors=True)
