#!/bin/sh
# quickseed.sh <seed dir name> <check ids...> : apply patch on a fresh worktree, run checks against it
s=$1; shift
wt=/tmp/qs_$s
git -C /repo worktree add -q --detach $wt HEAD || exit 2
if git -C $wt apply ${SEEDBASE:-/tmp/seeded}/$s/patch.diff; then
  for c in "$@"; do
    out=$(cd /verif && VERIF_REPO=$wt bin/check $c 2>&1)
    rc=$?
    echo "seed=$s check=$c rc=$rc viol=$(echo "$out" | grep -c '^VIOLATION') drift=$(echo "$out" | grep -c '^DRIFT') :: $(echo "$out" | grep -m1 'clause=' | cut -c1-220)"
    [ $rc -eq 2 ] && echo "$out" | grep -m2 MACHINERY | cut -c1-300
  done
else
  echo "seed=$s PATCH DOES NOT APPLY"
fi
git -C /repo worktree remove --force $wt
