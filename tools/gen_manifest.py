#!/usr/bin/env python3
"""Regenerates MANIFEST.json from the table below (single source of truth)."""
import json, os
HERE = os.path.dirname(os.path.dirname(os.path.abspath(__file__)))

CHECKS = {}
NA = {}

def chk(pid, cat, text, note, technique, design_ref, engine):
    CHECKS[pid] = dict(property_id=pid,
        quick_cmd='bin/check %s --tier quick' % pid,
        thorough_cmd='bin/check %s --tier thorough' % pid,
        evidence_file='evidence/%s.json' % pid,
        replay_cmd_template='bin/check %s --replay {path}' % pid,
        engine=engine,
        level_claimed=dict(category=cat, text=text, design_ref=design_ref),
        level_note=note, technique=technique)

TB = ('Trusted: TLC, the hand transcription of the property into the abstract TLA+ module, the Python '
      'serialiser of documents/streams (no verdict logic), CPython. ')

chk('C04', 'model_checking',
    'Every SDoc stream the real engine emits for every document of a bounded-exhaustive universe (n-ary concat, '
    'bare str, all combinators) x widths x ribbon fractions x both strategies is validated by TLC against the '
    'nondeterministic reference machine spec/LayoutSpec.tla (acceptance = membership in the set of layouts the '
    'document denotes, clauses order/indent/choice/forced/annot) and spec/Render.tla (render clause); the concrete '
    'transcription spec/LayoutImpl.tla predicts every stream exactly (DRIFT binding), is model-checked step-wise '
    '(LayoutImplMC) and its streams are accepted by the abstract machine (concrete => abstract).',
    TB + 'Exhaustive only up to the stated node bound; larger documents are random.',
    'TLA+ trace validation of real SDoc streams against a nondeterministic layout machine (TLC) + model checking of the concrete engine spec',
    'DESIGN.md section 5 C04', 'layout')
chk('C05', 'model_checking',
    'Same trace validation with the C05 guard enabled: a group may be explained as flat only if the rendered line '
    'it sits on ends within min(W, indent + R); a stream with no admissible explanation is a violation. Classic '
    'algebra, exhaustive to a node bound + random, all widths/ribbons/strategies.',
    TB + 'Line lengths are measured after the renderer\'s right-trim (permissive reading).',
    'TLA+ trace validation (LayoutSpec.tla guard C05.flat) with TLC', 'DESIGN.md section 5 C05', 'layout')
chk('C06', 'model_checking',
    'Same trace validation with the C06 guard enabled: a group without forced break may be explained as broken '
    'only if the true-column look-ahead (Fits) of the group plus the rest of its line overflows; plus the '
    'value-level corollary on real pformat (one-line form of L columns is reproduced at every width >= L).',
    TB + 'The look-ahead in the spec uses true columns; the engine\'s relative-column quirk is on the optimistic side.',
    'TLA+ trace validation (LayoutSpec.tla guard C06.break) with TLC + pformat corollary', 'DESIGN.md section 5 C06', 'layout')

ALL = ['C%02d' % i for i in range(1, 21)]
REASON_PENDING = 'check not built yet in this round; see DESIGN.md section 8 (order of work)'

def main():
    na = [dict(property_id=p, reason=NA.get(p, REASON_PENDING)) for p in ALL if p not in CHECKS]
    m = dict(
        version=1,
        setup_cmd='sh bin/setup',
        hooks=dict(guard='PRETTYPRINTER_VERIF',
                   enable='no source hooks: checks set PRETTYPRINTER_VERIF=1 and wrap module attributes from outside',
                   baseline_off_cmd='cd /repo && env -u PRETTYPRINTER_VERIF /venv/bin/python -m pytest -ra -q -p no:cacheprovider --timeout=900 --continue-on-collection-errors',
                   source_commits=[], add_only=True),
        engines=[
            dict(name='layout', path='spec/LayoutSpec.tla', serves_properties=['C04', 'C05', 'C06'],
                 kind_free_text='abstract nondeterministic layout machine + concrete LayoutImpl.tla/LayoutImplMC.tla/Render.tla, run by TLC; harness/checks/layout.py feeds real SDoc streams'),
        ],
        checks=[CHECKS[p] for p in ALL if p in CHECKS],
        notes='See DESIGN.md. bin/check <ID> --tier quick|thorough; exit 0 ok / 1 VIOLATION / 2 machinery error.',
        not_applicable=na,
    )
    with open(os.path.join(HERE, 'MANIFEST.json'), 'w') as f:
        json.dump(m, f, indent=1)
        f.write('\n')

if __name__ == '__main__':
    main()
