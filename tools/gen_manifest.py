#!/usr/bin/env python3
"""Regenerates MANIFEST.json from the table below (single source of truth)."""
import json, os
HERE = os.path.dirname(os.path.dirname(os.path.abspath(__file__)))

CHECKS = {}
NA = {}

def chk(pid, cat, text, note, technique, design_ref, engine):
    CHECKS[pid] = dict(property_id=pid,
        quick_cmd='bin/check %s --tier quick' % pid,
        thorough_cmd='bin/check %s --tier thorough' % pid,
        evidence_file='evidence/%s.json' % pid,
        replay_cmd_template='bin/check %s --replay {path}' % pid,
        engine=engine,
        level_claimed=dict(category=cat, text=text, design_ref=design_ref),
        level_note=note, technique=technique)

TB = ('Trusted: TLC, the hand transcription of the property into the abstract TLA+ module, the Python '
      'serialiser of documents/streams (no verdict logic), CPython. ')

chk('C04', 'model_checking',
    'Every SDoc stream the real engine emits for every document of a bounded-exhaustive universe (n-ary concat, '
    'bare str, all combinators) x widths x ribbon fractions x both strategies is validated by TLC against the '
    'nondeterministic reference machine spec/LayoutSpec.tla (acceptance = membership in the set of layouts the '
    'document denotes, clauses order/indent/choice/forced/annot) and spec/Render.tla (render clause); the concrete '
    'transcription spec/LayoutImpl.tla predicts every stream exactly (DRIFT binding), is model-checked step-wise '
    '(LayoutImplMC) and its streams are accepted by the abstract machine (concrete => abstract).',
    TB + 'Exhaustive only up to the stated node bound; larger documents are random.',
    'TLA+ trace validation of real SDoc streams against a nondeterministic layout machine (TLC) + model checking of the concrete engine spec',
    'DESIGN.md section 5 C04', 'layout')
chk('C05', 'model_checking',
    'Same trace validation with the C05 guard enabled: a group may be explained as flat only if the rendered line '
    'it sits on ends within min(W, indent + R); a stream with no admissible explanation is a violation. Classic '
    'algebra, exhaustive to a node bound + random, all widths/ribbons/strategies.',
    TB + 'Line lengths are measured after the renderer\'s right-trim (permissive reading).',
    'TLA+ trace validation (LayoutSpec.tla guard C05.flat) with TLC', 'DESIGN.md section 5 C05', 'layout')
chk('C06', 'model_checking',
    'Same trace validation with the C06 guard enabled: a group without forced break may be explained as broken '
    'only if the true-column look-ahead (Fits) of the group plus the rest of its line overflows; plus the '
    'value-level corollary on real pformat (one-line form of L columns is reproduced at every width >= L).',
    TB + 'The look-ahead in the spec uses true columns; the engine\'s relative-column quirk is on the optimistic side.',
    'TLA+ trace validation (LayoutSpec.tla guard C06.break) with TLC + pformat corollary', 'DESIGN.md section 5 C06', 'layout')

chk('C15', 'model_checking',
    'spec/Registry.tla states the dispatch rule abstractly (nearest registered class in the MRO, else first predicate, '
    'else repr; is_registered three-valued where promotion is unobservable; print-history independence) and transcribes '
    'register_pretty/is_registered/pretty_python_value concretely; RegistryMC explores ALL reachable (abstract, concrete) '
    'state pairs on 3-class sub-lattices and checks concrete => abstract in each; histories emitted by TLC (exhaustive '
    'length 2, -simulate length 12) and seeded random ones are executed on the real module with freshly minted classes '
    'and every execution is validated by TLC (RegistryTrace) step by step, results against the abstract rule '
    '(VIOLATION) and results + registry projection against the concrete prediction (DRIFT).',
    TB + 'Where one class holds both a by-name and a by-class registration either printer is accepted but it must not change between registrations.',
    'TLA+ model checking of the registry + replay of TLC-generated histories + trace validation', 'DESIGN.md section 5 C15', 'registry')
chk('C18', 'model_checking',
    'spec/Config.tla: effective = explicit over defaults, set_default_config changes exactly its keys, what each of the six '
    'entry points passes on and appends; ConfigMC explores every reachable default state; histories (systematic per-key grid, '
    'TLC -simulate walks, seeded random) are executed on the real package and validated by TLC (ConfigTrace) against a table '
    'of reference texts pformat(value, **full config).',
    TB + 'Texts are identified with one of 64 reference renderings of a value chosen to be sensitive to every setting.',
    'TLA+ trace validation of configuration/entry-point histories (TLC) + model checking of the defaults state space', 'DESIGN.md section 5 C18', 'config')
chk('C19', 'exploration',
    'Print histories (all ordered pairs, triples of cache-warming values, random walks of length 30) over a corpus touching '
    'every cache are executed in one interpreter with pristine caches and validated by TLC against spec/History.tla: every '
    'text must equal the baseline obtained by printing that value first in a fresh interpreter, inputs are deep-snapshotted '
    'before/after, and the cache projection must equal the accumulated footprints (DRIFT).',
    TB + 'Exploration of histories, not a proof of purity; baselines come from one subprocess per corpus value.',
    'replay of print histories validated against History.tla (TLC) with fresh-interpreter baselines', 'DESIGN.md section 5 C19', 'history')
chk('C20', 'model_checking',
    'spec/RegistryThreads.tla splits the dispatch path at source-line granularity (Acquire/Check/Pop/Reg/NextC/Release/'
    'Dispatch) and TLC checks, over all interleavings of 2-3 threads x all programs, that no call raises and each returns the '
    'sequential result (with Locking = FALSE it finds both races, used as a standing canary). On the code, a deterministic '
    'sys.settrace scheduler runs every preemption plan up to a bound at package line boundaries; each execution is judged by '
    'TLC (RegistryThreadsTrace: SafeTrace = VIOLATION clause, behaviour-of-the-model = DRIFT).',
    TB + 'Thread switches only at line boundaries of the dispatch-path functions; functools internals atomic.',
    'TLA+ model checking of all interleavings + systematic schedule exploration with trace validation', 'DESIGN.md section 5 C20', 'threads')

ALL = ['C%02d' % i for i in range(1, 21)]
REASON_PENDING = 'check not built yet in this round; see DESIGN.md section 8 (order of work)'

def main():
    na = [dict(property_id=p, reason=NA.get(p, REASON_PENDING)) for p in ALL if p not in CHECKS]
    m = dict(
        version=1,
        setup_cmd='sh bin/setup',
        hooks=dict(guard='PRETTYPRINTER_VERIF',
                   enable='no source hooks: checks set PRETTYPRINTER_VERIF=1 and wrap module attributes from outside',
                   baseline_off_cmd='cd /repo && env -u PRETTYPRINTER_VERIF /venv/bin/python -m pytest -ra -q -p no:cacheprovider --timeout=900 --continue-on-collection-errors',
                   source_commits=[], add_only=True),
        engines=[
            dict(name='layout', path='spec/LayoutSpec.tla', serves_properties=['C04', 'C05', 'C06'],
                 kind_free_text='abstract nondeterministic layout machine + concrete LayoutImpl.tla/LayoutImplMC.tla/Render.tla, run by TLC; harness/checks/layout.py feeds real SDoc streams'),
            dict(name='registry', path='spec/Registry.tla', serves_properties=['C15'], kind_free_text='Registry.tla + RegistryMC.tla + RegistryTrace.tla (TLC); harness/checks/registry.py'),
            dict(name='threads', path='spec/RegistryThreads.tla', serves_properties=['C20'], kind_free_text='RegistryThreads.tla + RegistryThreadsTrace.tla (TLC); harness/sched.py deterministic scheduler'),
            dict(name='config', path='spec/Config.tla', serves_properties=['C18'], kind_free_text='Config.tla + ConfigMC.tla + ConfigTrace.tla (TLC)'),
            dict(name='history', path='spec/History.tla', serves_properties=['C19'], kind_free_text='History.tla (TLC) + fresh-interpreter baselines'),
        ],
        checks=[CHECKS[p] for p in ALL if p in CHECKS],
        notes='See DESIGN.md. bin/check <ID> --tier quick|thorough; exit 0 ok / 1 VIOLATION / 2 machinery error.',
        not_applicable=na,
    )
    with open(os.path.join(HERE, 'MANIFEST.json'), 'w') as f:
        json.dump(m, f, indent=1)
        f.write('\n')

if __name__ == '__main__':
    main()
