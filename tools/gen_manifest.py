#!/usr/bin/env python3
"""Regenerates MANIFEST.json from the table below (single source of truth)."""
import json, os
HERE = os.path.dirname(os.path.dirname(os.path.abspath(__file__)))

CHECKS = {}
NA = {}

def chk(pid, cat, text, note, technique, design_ref, engine):
    CHECKS[pid] = dict(property_id=pid,
        quick_cmd='bin/check %s --tier quick' % pid,
        thorough_cmd='bin/check %s --tier thorough' % pid,
        evidence_file='evidence/%s.json' % pid,
        replay_cmd_template='bin/check %s --replay {path}' % pid,
        engine=engine,
        level_claimed=dict(category=cat, text=text, design_ref=design_ref),
        level_note=note, technique=technique)

TB = ('Trusted: TLC, the hand transcription of the property into the abstract TLA+ module, the Python '
      'serialiser of documents/streams (no verdict logic), CPython. ')

chk('C04', 'model_checking',
    'Every SDoc stream the real engine emits for every document of a bounded-exhaustive universe (n-ary concat, '
    'bare str, all combinators) x widths x ribbon fractions x both strategies is validated by TLC against the '
    'nondeterministic reference machine spec/LayoutSpec.tla (acceptance = membership in the set of layouts the '
    'document denotes, clauses order/indent/choice/forced/annot) and spec/Render.tla (render clause); the concrete '
    'transcription spec/LayoutImpl.tla predicts every stream exactly (DRIFT binding), is model-checked step-wise '
    '(LayoutImplMC) and its streams are accepted by the abstract machine (concrete => abstract).',
    TB + 'Exhaustive only up to the stated node bound; larger documents are random.',
    'TLA+ trace validation of real SDoc streams against a nondeterministic layout machine (TLC) + model checking of the concrete engine spec',
    'DESIGN.md section 4 C04', 'layout')
chk('C05', 'model_checking',
    'Same trace validation with the C05 guard enabled: a group may be explained as flat only if the rendered line '
    'it sits on ends within min(W, indent + R); a stream with no admissible explanation is a violation. Classic '
    'algebra, exhaustive to a node bound + random, all widths/ribbons/strategies.',
    TB + 'Line lengths are measured after the renderer\'s right-trim (permissive reading).',
    'TLA+ trace validation (LayoutSpec.tla guard C05.flat) with TLC', 'DESIGN.md section 4 C05', 'layout')
chk('C06', 'model_checking',
    'Same trace validation with the C06 guard enabled: a group without forced break may be explained as broken '
    'only if the true-column look-ahead (Fits) of the group plus the rest of its line overflows; plus the '
    'value-level corollary on real pformat (one-line form of L columns is reproduced at every width >= L).',
    TB + 'The look-ahead in the spec uses true columns; the engine\'s relative-column quirk is on the optimistic side.',
    'TLA+ trace validation (LayoutSpec.tla guard C06.break) with TLC + pformat corollary', 'DESIGN.md section 4 C06', 'layout')

chk('C15', 'model_checking',
    'spec/Registry.tla states the dispatch rule abstractly (nearest registered class in the MRO, else first predicate, '
    'else repr; is_registered three-valued where promotion is unobservable; print-history independence) and transcribes '
    'register_pretty/is_registered/pretty_python_value concretely; RegistryMC explores ALL reachable (abstract, concrete) '
    'state pairs on 3-class sub-lattices and checks concrete => abstract in each; histories emitted by TLC (exhaustive '
    'length 2, -simulate length 12) and seeded random ones are executed on the real module with freshly minted classes '
    'and every execution is validated by TLC (RegistryTrace) step by step, results against the abstract rule '
    '(VIOLATION) and results + registry projection against the concrete prediction (DRIFT).',
    TB + 'Where one class holds both a by-name and a by-class registration either printer is accepted but it must not change between registrations.',
    'TLA+ model checking of the registry + replay of TLC-generated histories + trace validation', 'DESIGN.md section 4 C15', 'registry')
chk('C18', 'model_checking',
    'spec/Config.tla: effective = explicit over defaults, set_default_config changes exactly its keys, what each of the six '
    'entry points passes on and appends; ConfigMC explores every reachable default state; histories (systematic per-key grid, '
    'TLC -simulate walks, seeded random) are executed on the real package and validated by TLC (ConfigTrace) against a table '
    'of reference texts pformat(value, **full config).',
    TB + 'Texts are identified with one of 64 reference renderings of a value chosen to be sensitive to every setting.',
    'TLA+ trace validation of configuration/entry-point histories (TLC) + model checking of the defaults state space', 'DESIGN.md section 4 C18', 'config')
chk('C19', 'exploration',
    'Print histories (all ordered pairs, triples of cache-warming values, random walks of length 30) over a corpus touching '
    'every cache are executed in one interpreter with pristine caches and validated by TLC against spec/History.tla: every '
    'text must equal the baseline obtained by printing that value first in a fresh interpreter, inputs are deep-snapshotted '
    'before/after, and the cache projection must equal the accumulated footprints (DRIFT).',
    TB + 'Exploration of histories, not a proof of purity; baselines come from one subprocess per corpus value.',
    'replay of print histories validated against History.tla (TLC) with fresh-interpreter baselines', 'DESIGN.md section 4 C19', 'history')
chk('C20', 'model_checking',
    'spec/RegistryThreads.tla splits the dispatch path at source-line granularity (Acquire/Check/Pop/Reg/NextC/Release/'
    'Dispatch) and TLC checks, over all interleavings of 2-3 threads x all programs, that no call raises and each returns the '
    'sequential result (with Locking = FALSE it finds both races, used as a standing canary). On the code, a deterministic '
    'sys.settrace scheduler runs every preemption plan up to a bound at package line boundaries; each execution is judged by '
    'TLC (RegistryThreadsTrace: SafeTrace = VIOLATION clause, behaviour-of-the-model = DRIFT).',
    TB + 'Thread switches only at line boundaries of the dispatch-path functions; functools internals atomic.',
    'TLA+ model checking of all interleavings + systematic schedule exploration with trace validation', 'DESIGN.md section 4 C20', 'threads')

TERM = ('Trusted: TLC, PyTerm.tla (my semantics of the printed sub-language; cross-checked on every case against CPython '
        'eval + typed equality, a disagreement is a machinery error), ast.parse/tokenize as lexer/parser, CPython. ')
chk('C01', 'other',
    'Trace validation against an executable semantics: every distinct pformat output over a bounded-exhaustive + random '
    'universe of value trees x widths x ribbon x indent x sort is parsed (syntax only) and TLC decides '
    'PyTerm!TEq(Denote(obs), value) (typed structural equality, sets as sets, dict order incl. key sorting); non-termination '
    'and printer failures are violations.',
    TERM, 'TLA+ batch evaluation of Denote/TEq (PyTerm.tla) on parsed outputs of the real pformat', 'DESIGN.md section 4 C01', 'terms')
chk('C02', 'model_checking',
    'StrSplit.tla transcribes str_to_lines branch by branch over character classes; TLC explores ALL class strings up to the '
    'bound x max_len x quote x str/bytes x pattern and checks conservation, no-empty-piece and a lexicographic termination '
    'variant; the real splitter is bound to the model line by line (DRIFT) and the literal pieces found in real pformat outputs '
    '(six placements x every width) are judged by TLC (PiecesOK).',
    TB + 'Character classes are realised by one representative each; tokenize/ast.literal_eval decode single pieces.',
    'TLA+ model checking of the splitter + trace validation of real splitter runs and printed literal pieces', 'DESIGN.md section 4 C02', 'strsplit')
chk('C03', 'other',
    'For corpora of built-in, standard-library, subclass, commented and pretty_call values, every distinct output over widths '
    '1..200 x ribbon x indent is parsed and compared by TLC with the syntax tree obtained at the reference configuration; the '
    'indent-multiple clause is evaluated on every line. Together with C04 (the engine only picks layouts of the document) this '
    'covers the sampled widths; it is trace validation, not a proof for all widths.',
    TERM, 'TLA+ batch comparison of parsed outputs across layout configurations', 'DESIGN.md section 4 C03', 'terms')
chk('C07', 'exploration',
    'Stdlib.tla states the boundary grids and the field-dropping arithmetic of timedelta/datetime/time; TLC proves '
    'Denote(View(x)) = x on the grids, emits them, and validates the keyword lists the real printers print for each descriptor; '
    'all other bundled standard-library printers are explored over boundary instances x nesting contexts x widths with an eval '
    'cross-oracle (per-type equality); totality (no internal printer failure) is checked on every print.',
    'Faithfulness outside the datetime family is decided by Python eval + per-type equality, not by the specification.',
    'TLC-generated descriptor grids replayed into the printers + trace validation (datetime family); eval oracle elsewhere', 'DESIGN.md section 4 C07', 'stdlib')
chk('C08', 'other',
    'Instances of plain / __repr__ / __str__ / both subclasses of every built-in base and an IntEnum, x base values x contexts '
    'x widths: TLC decides Denote(obs) = <<"sub", qualified name, base value>> (PyTerm.tla).',
    TERM, 'TLA+ batch evaluation of Denote/TEq on parsed outputs', 'DESIGN.md section 4 C08', 'terms')
chk('C09', 'other',
    'Random placements of comment()/trailing_comment() with adversarial texts on value skeletons x widths: TLC checks that the '
    'commented output has the syntax tree of the uncommented one and that the words found in # comments are an order-preserving '
    'merge of the attached texts (TermTrace!IsMerge); warnings/exceptions caused by comment text are violations.',
    TERM, 'TLA+ batch validation (syntax equality + word-merge) of parsed outputs and comment tokens', 'DESIGN.md section 4 C09', 'terms')
chk('C10', 'other',
    'Container trees x max_seq_len in 1..maxlen+1 and None x widths x sort: TLC decides Denote(obs) = PyTerm!Truncate(value, N) '
    'and that the truncation notices are exactly PyTerm!Dropped(value, N); None must equal a limit larger than every container.',
    TERM, 'TLA+ batch evaluation of Truncate/Dropped on parsed outputs', 'DESIGN.md section 4 C10', 'terms')
chk('C11', 'other',
    'Container trees with unique leaves x depth in 0..height+2 x widths: TLC compares the parsed output with '
    'PyTerm!CutSyn(value, d) (placeholders of the right type exactly at the cut); two recorded deviations (empty list/tuple and '
    'str keys at the cut level) are known findings recognised by the spec itself.',
    TERM, 'TLA+ batch evaluation of CutSyn on parsed outputs', 'DESIGN.md section 4 C11', 'terms')
chk('C12', 'exploration',
    'Design level: TLC checks ranking functions of the three loops (LayoutImplMC!Decreasing, StrSplit!Progress, Walk) on bounded '
    'universes. Code level: executed source lines inside the package (sys.monitoring) for 27 parametrised families at sizes '
    '6..48/96 under a hard step budget; growth per doubling must stay <= 16.',
    'Exploration of families, not a proof of a growth law; a polynomial of degree <= 4 passes.',
    'TLC ranking-function checks + executed-line counting of input families', 'DESIGN.md section 4 C12', 'cost')
chk('C13', 'model_checking',
    'Walk.tla: abstract Unfold (marker iff the node is on the DFS path) and the concrete visit-bracket machine of _run_pretty; '
    'WalkMC checks concrete => abstract, visited = pending exits and no residue step by step for every graph of the universe; '
    'every graph is printed twice by the real package and TLC compares the token sequence of the parsed output with Unfold and '
    'the start/end/is_visited log with the machine (DRIFT).',
    TB + 'Graphs exhaustive to 2 nodes (3 kinds) / 3 nodes (list, dict), random beyond.',
    'TLA+ model checking of the traversal machine + trace validation of real prints and visit logs', 'DESIGN.md section 4 C13', 'walk')
chk('C14', 'fault_enumeration',
    'Every printer-invocation index of every tree/DAG of instrumented user objects (with/without trailing_comment, printers '
    'accepting it or not) x exception classes is injected; TLC compares each faulty output with Walk!Unfold(graph, root, fault) '
    '(baseline with exactly that invocation replaced by repr), the warning count, and the following fault-free print; WalkMC '
    'model-checks the same fault plans on the concrete machine; non-Doc results are scenario-checked.',
    TB + 'Faults are raised at the start of the failing printer call.',
    'model-driven fault enumeration + TLA+ trace validation', 'DESIGN.md section 4 C14', 'walk')
chk('C16', 'model_checking',
    'Color.tla: abstract per-character style = innermost token annotation, strip = plain rendering, final reset; concrete colour '
    'stack. ColorMC checks concrete => abstract over ALL well-nested streams up to the bound; the bytes really written (synthetic '
    'streams x 32 attribute combinations, real values x every installed pygments style, true colours forced) are decoded by an '
    'SGR state machine and judged by TLC (ColorTrace). The entry point cpprint is also run end to end under random configurations: '
    'decoded output with the styling removed must equal pformat under the same configuration + end (differential clause).',
    TB + 'The SGR decoder is trusted.',
    'TLA+ model checking of the colour stack + trace validation of decoded escape streams', 'DESIGN.md section 4 C16', 'color')
chk('C17', 'other',
    'pretty_call / pretty_call_alt with random args/kwargs forms and callables: TLC checks the call shape against the '
    'stand-alone prints of the arguments; dataclass / attrs class definitions are ENUMERATED BY TLC from Extras.tla, '
    'materialised, printed, and the printed keywords validated against Extras!Shown (+ reconstruction when Reconstructible).',
    TERM, 'replay of TLC-generated class definitions + TLA+ validation of parsed outputs', 'DESIGN.md section 4 C17', 'extras')

ALL = ['C%02d' % i for i in range(1, 21)]
REASON_PENDING = 'check not built yet in this round; see DESIGN.md section 8 (order of work)'

def main():
    na = [dict(property_id=p, reason=NA.get(p, REASON_PENDING)) for p in ALL if p not in CHECKS]
    m = dict(
        version=1,
        setup_cmd='sh bin/setup',
        hooks=dict(guard='PRETTYPRINTER_VERIF',
                   enable='no source hooks: checks set PRETTYPRINTER_VERIF=1 and wrap module attributes from outside',
                   baseline_off_cmd='cd /repo && env -u PRETTYPRINTER_VERIF /venv/bin/python -m pytest -ra -q -p no:cacheprovider --timeout=900 --continue-on-collection-errors',
                   source_commits=[], add_only=True),
        engines=[
            dict(name='layout', path='spec/LayoutSpec.tla', serves_properties=['C04', 'C05', 'C06'],
                 kind_free_text='abstract nondeterministic layout machine + concrete LayoutImpl.tla/LayoutImplMC.tla/Render.tla, run by TLC; harness/checks/layout.py feeds real SDoc streams'),
            dict(name='registry', path='spec/Registry.tla', serves_properties=['C15'], kind_free_text='Registry.tla + RegistryMC.tla + RegistryTrace.tla (TLC); harness/checks/registry.py'),
            dict(name='threads', path='spec/RegistryThreads.tla', serves_properties=['C20'], kind_free_text='RegistryThreads.tla + RegistryThreadsTrace.tla + CallsMC.tla + ConcurrentCalls.tla (TLC); harness/sched.py deterministic scheduler'),
            dict(name='config', path='spec/Config.tla', serves_properties=['C18'], kind_free_text='Config.tla + ConfigMC.tla + ConfigTrace.tla (TLC)'),
            dict(name='terms', path='spec/PyTerm.tla', serves_properties=['C01', 'C03', 'C08', 'C09', 'C10', 'C11'], kind_free_text='PyTerm.tla (Denote/TEq/Truncate/CutSyn) + TermTrace.tla batch validation by TLC; harness/pyterm.py extracts syntax terms'),
            dict(name='strsplit', path='spec/StrSplit.tla', serves_properties=['C02'], kind_free_text='StrSplit.tla + StrSplitTrace.tla'),
            dict(name='stdlib', path='spec/Stdlib.tla', serves_properties=['C07'], kind_free_text='Stdlib.tla grids/lemma/validation'),
            dict(name='walk', path='spec/Walk.tla', serves_properties=['C13', 'C14'], kind_free_text='Walk.tla + WalkMC.tla + WalkTrace.tla'),
            dict(name='color', path='spec/Color.tla', serves_properties=['C16'], kind_free_text='Color.tla + ColorMC.tla + ColorTrace.tla'),
            dict(name='extras', path='spec/Extras.tla', serves_properties=['C17'], kind_free_text='Extras.tla (class definition enumeration + Shown)'),
            dict(name='cost', path='spec/LayoutImplMC.tla', serves_properties=['C12'], kind_free_text='ranking functions (LayoutImplMC, StrSplit, WalkMC) + sys.monitoring line counts'),
            dict(name='history', path='spec/History.tla', serves_properties=['C19'], kind_free_text='History.tla (TLC) + fresh-interpreter baselines'),
        ],
        checks=[CHECKS[p] for p in ALL if p in CHECKS],
        notes='See DESIGN.md. bin/check <ID> --tier quick|thorough; exit 0 ok / 1 VIOLATION / 2 machinery error.',
        not_applicable=na,
    )
    with open(os.path.join(HERE, 'MANIFEST.json'), 'w') as f:
        json.dump(m, f, indent=1)
        f.write('\n')

if __name__ == '__main__':
    main()
