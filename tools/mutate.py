#!/usr/bin/env python3
"""Self-test helper: apply a textual mutation to /repo, run checks, revert.

usage: mutate.py <relpath> <old> <new> [count] -- C04 C05 ...
Never leaves /repo modified (git checkout on exit).
"""
import subprocess, sys, os
args = sys.argv[1:]
sep = args.index('--')
rel, old, new = args[0], args[1], args[2]
count = int(args[3]) if sep > 3 else 1
ids = args[sep + 1:]
p = os.path.join('/repo', rel)
s = open(p).read()
assert s.count(old) >= 1, 'pattern not found'
s2 = s.replace(old, new, count)
open(p, 'w').write(s2)
try:
    for i in ids:
        r = subprocess.run(['/verif/bin/check', i, '--tier', os.environ.get('TIER', 'quick')], cwd='/verif',
                           stdout=subprocess.PIPE, stderr=subprocess.STDOUT, text=True)
        lines = r.stdout.splitlines()
        viol = [l for l in lines if l.startswith('VIOLATION')]
        drift = [l for l in lines if l.startswith('DRIFT')]
        mach = [l for l in lines if l.startswith('MACHINERY')]
        print('%s: rc=%d violations=%d drift=%d machinery=%d' % (i, r.returncode, len(viol), len(drift), len(mach)))
        for l in lines:
            if l.startswith('    clause='):
                print('   ', l[:300]); break
        for l in mach[:2]: print('   ', l[:300])
finally:
    subprocess.run(['git', '-C', '/repo', 'checkout', '--', rel])
    subprocess.run(['rm', '-rf', '/verif/replays'])
