#!/bin/sh
# usage: seed_sweep.sh <tier> <from> <to> ids...   -- runs checks with many seeds, prints non-OK summaries
tier=$1; a=$2; b=$3; shift 3
for seed in $(seq $a $b); do
  for p in "$@"; do
    out=$(VERIF_SEED=$seed bin/check $p --tier $tier 2>&1)
    rc=$?
    echo "seed=$seed $p rc=$rc $(echo "$out" | grep -E '^\[.*\] (OK|[0-9]+ violation|machinery)' | cut -c1-200)"
    if [ $rc -ne 0 ]; then echo "$out" | grep -E "clause=|MACHINERY" | head -5 | cut -c1-1500; fi
    echo "$out" | grep -E "^DRIFT" | head -3 | cut -c1-600
  done
done
