"""C06 corollary on real pformat: a value whose unbounded rendering is one line of
L columns is printed as that same line at every width and ribbon_width >= L."""
import prettyprinter as P


def run(chk):
    import values
    vals = values.oneline_corpus(chk)
    n = 0
    bad = 0
    for name, v in vals:
        try:
            one = P.pformat(v, width=10 ** 6, ribbon_width=10 ** 6)
        except Exception:
            continue
        if '\n' in one:
            continue
        L = len(one)
        for w in sorted({L, L + 1, L + 2, 2 * L, max(200, L)}):
            if w < 1:
                continue
            n += 1
            out = P.pformat(v, width=w, ribbon_width=w)
            if out != one:
                bad += 1
                chk.violation('C06.oneline', 'value %s: one-line form has %d columns but pformat(width=%d, '
                              'ribbon_width=%d) gives %r' % (name, L, w, w, out),
                              {'value': name, 'L': L, 'width': w, 'out': out, 'oneline': one})
                break
    chk.cov['oneline_evaluations'] = n
    chk.stage('oneline-corollary', values=len(vals), prints=n, failures=bad)
    design_level(chk, vals)


def design_level(chk, vals):
    """The same corollary proved on the concrete pipeline model (PrintersMC.tla) for the values inside its domain."""
    import os
    import common
    from checks import values_checks as VC
    cases = []
    for i, (name, v) in enumerate(vals):
        for ind in (4, 1):
            try:
                cases.append({'id': len(cases) + 1, 'val': VC.model_term(v, False), 'indent': ind, 'name': name[:120]})
            except Exception:  # noqa
                pass
    cfg = "INIT Init\nNEXT Next\nINVARIANT Report\nCHECK_DEADLOCK FALSE\n"
    v, st = common.tlc_batch('PrintersMC', cfg, cases, os.path.join(chk.workdir, 'printersmc'), tags=('ONE',),
                             min_per_shard=60, heap='3g')
    chk.add_model(st)
    tally = {}
    for c in cases:
        line = v['ONE'].get(c['id'])
        if not line:
            chk.machinery_error('PrintersMC gave no verdict for %r' % (c['name'],))
            continue
        verdict = line[0][2]
        tally[verdict] = tally.get(verdict, 0) + 1
        if verdict == 'BROKEN':
            # the model breaks a one-line value at width >= L: a defect of the design if the code agrees with the
            # model (then the corollary check above has already reported it), drift of the model otherwise
            chk.drifted('PrintersMC: the pipeline model does not keep %s on one line at width >= L' % (c['name'],))
    chk.cov['oneline_model'] = tally
    chk.stage('tlc.model-check PrintersMC (one-line corollary on the pipeline model)', cases=len(cases), **tally)
