"""C06 corollary on real pformat: a value whose unbounded rendering is one line of
L columns is printed as that same line at every width and ribbon_width >= L."""
import prettyprinter as P


def run(chk):
    import values
    vals = values.oneline_corpus(chk)
    n = 0
    bad = 0
    for name, v in vals:
        try:
            one = P.pformat(v, width=10 ** 6, ribbon_width=10 ** 6)
        except Exception:
            continue
        if '\n' in one:
            continue
        L = len(one)
        for w in sorted({L, L + 1, L + 2, 2 * L, max(200, L)}):
            if w < 1:
                continue
            n += 1
            out = P.pformat(v, width=w, ribbon_width=w)
            if out != one:
                bad += 1
                chk.violation('C06.oneline', 'value %s: one-line form has %d columns but pformat(width=%d, '
                              'ribbon_width=%d) gives %r' % (name, L, w, w, out),
                              {'value': name, 'L': L, 'width': w, 'out': out, 'oneline': one})
                break
    chk.cov['oneline_evaluations'] = n
    chk.stage('oneline-corollary', values=len(vals), prints=n, failures=bad)
