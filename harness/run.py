"""Entry point:  run.py <ID> [--tier quick|thorough] [--replay path]"""
import os
import sys

HERE = os.path.dirname(os.path.abspath(__file__))
sys.path.insert(0, HERE)
os.environ.setdefault('PRETTYPRINTER_VERIF', '1')
os.environ.setdefault('PYTHONHASHSEED', '0')

# For the self-tests only (seeded breaking changes live in scratch worktrees): VERIF_REPO points
# at an alternative checkout of the package. The registered commands never set it: they run
# against /repo, which /venv imports by default.
REPO = os.environ.get('VERIF_REPO')
if REPO:
    sys.path.insert(0, REPO)
    os.environ['PYTHONPATH'] = REPO + os.pathsep + os.environ.get('PYTHONPATH', '')

import common  # noqa

REGISTRY = {
    'C01': ('checks.values_checks', 'check_c01', 'other'),
    'C02': ('checks.strings', 'check_c02', 'model_checking'),
    'C07': ('checks.stdlib', 'check_c07', 'exploration'),
    'C08': ('checks.values_checks', 'check_c08', 'other'),
    'C03': ('checks.layoutcfg', 'check_c03', 'other'),
    'C04': ('checks.layout', 'check_c04', 'model_checking'),
    'C05': ('checks.layout', 'check_c05', 'model_checking'),
    'C06': ('checks.layout', 'check_c06', 'model_checking'),
    'C09': ('checks.comments', 'check_c09', 'other'),
    'C10': ('checks.limits', 'check_c10', 'other'),
    'C11': ('checks.limits', 'check_c11', 'other'),
    'C12': ('checks.cost', 'check_c12', 'exploration'),
    'C13': ('checks.walk', 'check_c13', 'model_checking'),
    'C14': ('checks.walk', 'check_c14', 'fault_enumeration'),
    'C15': ('checks.registry', 'check_c15', 'model_checking'),
    'C16': ('checks.color', 'check_c16', 'model_checking'),
    'C17': ('checks.calls', 'check_c17', 'other'),
    'C18': ('checks.config', 'check_c18', 'model_checking'),
    'C19': ('checks.history', 'check_c19', 'exploration'),
    'C20': ('checks.threads', 'check_c20', 'model_checking'),
}


def main():
    if len(sys.argv) < 2 or sys.argv[1] not in REGISTRY:
        print('usage: check <ID> [--tier quick|thorough]; known ids: %s' % ' '.join(sorted(REGISTRY)))
        sys.exit(2)
    pid = sys.argv[1]
    modname, fn, level = REGISTRY[pid]
    import importlib
    mod = importlib.import_module(modname)
    common.main_wrapper(getattr(mod, fn), pid, level)


if __name__ == '__main__':
    main()
