"""Value corpora shared by the value-level checks."""
import collections
import datetime
import random


LEAVES = [0, -1, 7, 2 ** 70, 1.5, -0.0, 0.0, float('inf'), float('-inf'), float('nan'), 1e300,
          True, False, None, Ellipsis, '', 'a', "it's", 'say "hi"', 'back\\slash', 'new\nline',
          '\x00', 'é', b'', b'ab', b"q'", b'\xff\x00', 'word ' * 6, 'x' * 30,
          b'bytes with spaces ' * 2,
          # both quote kinds, in both majorities, long enough to be split into adjacent literals whose pieces
          # each contain only one kind
          'both \' and "', 'it\'s \'x\' "y', '"a" "b" \'c', 'say "hi" it\'s a \'test\' of "quotes" here',
          b'both \' and " in bytes', b'it\'s \'x\' "y" bytes',
          # long, no whitespace, punctuation only: split at non-word characters
          b'/usr/local/lib/python3.11/site-packages/prettyprinter/__init__.py', 'pkg.module.sub-module:Class.method;arg=1,2|x' * 2,
          b'\xff\xfe-\x00\x01/\x80.\x81' * 6]


def hashable(v):
    try:
        hash(v)
        return True
    except TypeError:
        return False


def random_value(rng, depth=3, leaves=None):
    leaves = leaves or LEAVES
    if depth <= 0 or rng.random() < 0.3:
        return rng.choice(leaves)
    k = rng.choice(['list', 'tuple', 'set', 'frozenset', 'dict', 'list', 'dict', 'tuple'])
    n = rng.choice([0, 1, 1, 2, 2, 3, 4])
    if k == 'list':
        return [random_value(rng, depth - 1, leaves) for _ in range(n)]
    if k == 'tuple':
        return tuple(random_value(rng, depth - 1, leaves) for _ in range(n))
    if k in ('set', 'frozenset'):
        items = []
        for _ in range(n):
            v = random_value(rng, depth - 1, leaves)
            if not hashable(v):
                v = rng.choice([x for x in leaves if hashable(x)])
            items.append(v)
        return set(items) if k == 'set' else frozenset(items)
    d = {}
    for _ in range(n):
        key = random_value(rng, 1, leaves)
        if not hashable(key):
            key = rng.choice([x for x in leaves if hashable(x)])
        d[key] = random_value(rng, depth - 1, leaves)
    return d


def oneline_corpus(chk):
    rng = random.Random(chk.seed + 606)
    out = []
    fixed = [
        [1, 2, 3], (1,), {'a': 1, 'b': [1, 2]}, {1, 2}, frozenset([1]), 'short', b'bytes',
        [[], (), {}, set()], {'k': ('v', 1.5, None)}, [True, False, None, ...],
        collections.OrderedDict([(1, 2)]), collections.deque([1, 2], maxlen=3),
        collections.Counter('aab'), datetime.date(2020, 1, 2), datetime.timedelta(days=1, seconds=3),
        {'key': 'value with spaces', 'n': [1, [2, [3, [4]]]]}, [float('inf'), -0.0], ['a' * 40, 'b' * 30],
        list(range(12)), {'a': {'b': {'c': 1}}},
        # strings whose printed width differs from len(s) + 2 and from len(repr(s)): escapes, both quote kinds
        ['it\'s \'x\' "y'], {'k': '"a" "b" \'c'}, ('\n\t\\ \x00',), [b'it\'s \'x\' "y"', b'\xff\x00'], ['\u4e2d\u6587 caf\xe9'],
    ]
    for i, v in enumerate(fixed):
        out.append(('fixed[%d]=%r' % (i, v), v))
    n = 150 if chk.tier == 'quick' else 3000
    for i in range(n):
        v = random_value(rng, depth=rng.choice([1, 2, 3]))
        out.append(('random[%d]=%r' % (i, v), v))
    return out


def configs_for(rng, n):
    out = [(79, 71, 4)]
    while len(out) < n:
        w = rng.choice([1, 5, 10, 20, 30, 40, 60, 79, 120, 200])
        rw = rng.choice([1, max(1, w // 2), w, 200])
        out.append((w, rw, rng.choice([1, 2, 4, 8])))
    return out


def commented(rng, v, depth=2):
    """Randomly attach comment()/trailing_comment() annotations to nodes of v."""
    import prettyprinter as P
    texts = ['c', 'a comment', 'two words', 'x' * 30 + ' ' + 'y' * 30, 'multi\nline']
    if depth > 0 and isinstance(v, list):
        v = [commented(rng, x, depth - 1) for x in v]
    elif depth > 0 and isinstance(v, tuple):
        v = tuple(commented(rng, x, depth - 1) for x in v)
    elif depth > 0 and type(v) is dict:
        v = {k: commented(rng, x, depth - 1) for k, x in v.items()}
    r = rng.random()
    if r < 0.25:
        return P.comment(v, rng.choice(texts))
    if r < 0.35 and isinstance(v, (list, tuple, dict)) and len(v):
        return P.trailing_comment(v, rng.choice(texts))
    return v


def layout_corpus(chk):
    import collections, datetime
    rng = random.Random(chk.seed + 404)
    out = []
    fixed = [
        [1, 2, 3], {'a': 1, 'b': [1, 2], 'c': {'d': (1,)}}, 'a long string ' * 10, ['x' * 100],
        {'key': 'value ' * 20}, {'k' * 30: 1}, (b'bytes ' * 15,), [[[[['deep ' * 8]]]]],
        collections.OrderedDict([(1, 'one ' * 12)]), collections.deque(range(20), maxlen=30),
        datetime.datetime(2020, 1, 2, 3, 4, 5), datetime.timedelta(days=800, seconds=3),
        list(range(60)), {i: str(i) * i for i in range(8)}, frozenset([1, 2, 3]), set(),
    ]
    for i, v in enumerate(fixed):
        out.append(('fixed[%d]=%.80r' % (i, v), v))
    n = 40 if chk.tier == 'quick' else 600
    for i in range(n):
        v = random_value(rng, depth=rng.choice([1, 2, 3, 4]))
        if rng.random() < 0.5:
            cv = commented(rng, v)
            out.append(('commented[%d]=%.120r' % (i, v), cv))
        else:
            out.append(('random[%d]=%.120r' % (i, v), v))
    return out
