"""Value corpora shared by the value-level checks."""
import collections
import datetime
import random


LEAVES = [0, -1, 7, 2 ** 70, 1.5, -0.0, 0.0, float('inf'), float('-inf'), float('nan'), 1e300,
          True, False, None, Ellipsis, '', 'a', "it's", 'say "hi"', 'back\\slash', 'new\nline',
          '\x00', 'é', b'', b'ab', b"q'", b'\xff\x00', 'word ' * 6, 'x' * 30,
          b'bytes with spaces ' * 2]


def hashable(v):
    try:
        hash(v)
        return True
    except TypeError:
        return False


def random_value(rng, depth=3, leaves=None):
    leaves = leaves or LEAVES
    if depth <= 0 or rng.random() < 0.3:
        return rng.choice(leaves)
    k = rng.choice(['list', 'tuple', 'set', 'frozenset', 'dict', 'list', 'dict', 'tuple'])
    n = rng.choice([0, 1, 1, 2, 2, 3, 4])
    if k == 'list':
        return [random_value(rng, depth - 1, leaves) for _ in range(n)]
    if k == 'tuple':
        return tuple(random_value(rng, depth - 1, leaves) for _ in range(n))
    if k in ('set', 'frozenset'):
        items = []
        for _ in range(n):
            v = random_value(rng, depth - 1, leaves)
            if not hashable(v):
                v = rng.choice([x for x in leaves if hashable(x)])
            items.append(v)
        return set(items) if k == 'set' else frozenset(items)
    d = {}
    for _ in range(n):
        key = random_value(rng, 1, leaves)
        if not hashable(key):
            key = rng.choice([x for x in leaves if hashable(x)])
        d[key] = random_value(rng, depth - 1, leaves)
    return d


def oneline_corpus(chk):
    rng = random.Random(chk.seed + 606)
    out = []
    fixed = [
        [1, 2, 3], (1,), {'a': 1, 'b': [1, 2]}, {1, 2}, frozenset([1]), 'short', b'bytes',
        [[], (), {}, set()], {'k': ('v', 1.5, None)}, [True, False, None, ...],
        collections.OrderedDict([(1, 2)]), collections.deque([1, 2], maxlen=3),
        collections.Counter('aab'), datetime.date(2020, 1, 2), datetime.timedelta(days=1, seconds=3),
        {'key': 'value with spaces', 'n': [1, [2, [3, [4]]]]}, [float('inf'), -0.0], ['a' * 40, 'b' * 30],
        list(range(12)), {'a': {'b': {'c': 1}}},
    ]
    for i, v in enumerate(fixed):
        out.append(('fixed[%d]=%r' % (i, v), v))
    n = 150 if chk.tier == 'quick' else 3000
    for i in range(n):
        v = random_value(rng, depth=rng.choice([1, 2, 3]))
        out.append(('random[%d]=%r' % (i, v), v))
    return out
