"""Deterministic thread scheduler at source-line granularity inside the package.

Every worker thread runs under sys.settrace; at each 'line' event in a traced function
of the package it parks until the scheduler lets it execute exactly that line. A
schedule is described by a preemption plan [(step, thread), ...]: the scheduler keeps
running the current thread (lowest runnable when it finishes or blocks) except at the
listed steps, where it switches to the given thread.

Lock awareness: a released thread that does not park again is blocked on a lock iff
one of the package's module-level locks is held; it re-enters the runnable set when it
parks.
"""
import sys
import threading
import time


class Execution:
    def __init__(self, n, files, funcs, locks=(), observe=None):
        self.n = n
        self.files = set(files)
        self.funcs = funcs            # None = every function of the files
        self.locks = list(locks)
        self.observe = observe        # callable() -> hashable projection of shared state
        self.go = [threading.Semaphore(0) for _ in range(n)]
        self.arrived = [threading.Event() for _ in range(n)]
        self.done = [False] * n
        self.res = [None] * n
        self.queue = [[] for _ in range(n)]   # per-thread events recorded by the thread itself
        self.steps = []               # (thread, runnable set, status)
        self.events = []
        self.where = [None] * n

    def tracer(self, tid):
        def local(frame, event, arg):
            if event == 'line':
                self.where[tid] = (frame.f_code.co_name, frame.f_lineno)
                self.arrived[tid].set()
                self.go[tid].acquire()
            return local

        def glob(frame, event, arg):
            if event == 'call' and frame.f_code.co_filename in self.files and (
                    self.funcs is None or frame.f_code.co_name in self.funcs):
                return local
            return None
        return glob

    def lock_held(self):
        for lk in self.locks:
            if lk.acquire(blocking=False):
                lk.release()
            else:
                return True
        return False

    def run(self, fns, plan, max_steps=5000):
        plan = dict(plan)

        def body(tid):
            sys.settrace(self.tracer(tid))
            try:
                self.res[tid] = ('ok', fns[tid](self, tid))
            except BaseException as e:  # noqa
                self.res[tid] = ('exc', repr(e))
            finally:
                sys.settrace(None)
                self.done[tid] = True
                self.arrived[tid].set()

        ths = [threading.Thread(target=body, args=(i,), daemon=True) for i in range(self.n)]
        for i, t in enumerate(ths):
            t.start()
            self.arrived[i].wait(10)
        last_proj = self.observe() if self.observe else None
        cur = 0
        step = 0
        blocked = set()
        while not all(self.done) and step < max_steps:
            parked = [i for i in range(self.n) if not self.done[i] and self.arrived[i].is_set()]
            blocked -= set(parked)
            if not parked:
                time.sleep(0.0005)
                continue
            if step in plan and plan[step] in parked:
                tid = plan[step]
            elif cur in parked:
                tid = cur
            else:
                tid = parked[0]
            cur = tid
            self.arrived[tid].clear()
            self.go[tid].release()
            status = 'step'
            t0 = time.time()
            while not self.arrived[tid].wait(0.02):
                waited = time.time() - t0
                if (self.locks and self.lock_held() and waited > 0.02) or waited > 2.0:
                    status = 'blocked'
                    blocked.add(tid)
                    break
            self.steps.append((tid, tuple(parked), status, self.where[tid]))
            if self.observe:
                proj = self.observe()
                if proj != last_proj:
                    self.events.append({'t': tid, 'ev': 'state', 'from': last_proj, 'to': proj})
                    last_proj = proj
            for q in range(self.n):
                while self.queue[q]:
                    self.events.append(self.queue[q].pop(0))
            step += 1
        for t in ths:
            t.join(5)
        for q in range(self.n):
            while self.queue[q]:
                self.events.append(self.queue[q].pop(0))
        return self.res


def explore(make_execution, max_preemptions, budget=None, rng=None):
    """DFS over preemption plans. make_execution(plan) -> (execution, verdict payload).
    Yields (plan, execution, payload)."""
    stack = [()]
    seen = 0
    while stack:
        plan = stack.pop()
        ex, payload = make_execution(plan)
        seen += 1
        yield plan, ex, payload
        if budget is not None and seen >= budget:
            return
        if len(plan) >= max_preemptions:
            continue
        first = plan[-1][0] + 1 if plan else 0
        children = []
        for s in range(first, len(ex.steps)):
            tid, parked, status, _ = ex.steps[s]
            for other in parked:
                if other != tid:
                    children.append(plan + ((s, other),))
        if rng is not None:
            rng.shuffle(children)
        stack.extend(reversed(children))


_OWNER = None


def _owned_by(lock, ident):
    """True / False when the owner of an RLock can be read from its repr, None otherwise."""
    import re
    m = re.search(r'owner=(\d+)', repr(lock))
    if m:
        return int(m.group(1)) == ident
    return None


def _free(lock):
    if lock.acquire(blocking=False):
        lock.release()
        return True
    return False


def run_with_preemption(fn_a, fn_b, k, files, funcs=None, locks=()):
    """Cheap single-preemption schedule: thread A runs until it is about to execute its k-th traced
    source line (k = None: never), then B runs to completion, then A resumes.
    Returns (result_a, result_b, lines_a) where results are ('ok', value) / ('exc', repr)."""
    files = set(files)
    state = {'n': 0}
    reached = threading.Event()
    resume = threading.Event()
    res = {}

    def local(frame, event, arg):
        if event == 'line':
            state['n'] += 1
            if k is not None and state['n'] == k:
                reached.set()
                resume.wait(60)
        return local

    def glob(frame, event, arg):
        if event == 'call' and frame.f_code.co_filename in files and (funcs is None or frame.f_code.co_name in funcs):
            return local
        return None

    def body_a():
        sys.settrace(glob)
        try:
            res['a'] = ('ok', fn_a())
        except BaseException as e:  # noqa
            res['a'] = ('exc', repr(e))
        finally:
            sys.settrace(None)
            reached.set()

    def body_b():
        try:
            res['b'] = ('ok', fn_b())
        except BaseException as e:  # noqa
            res['b'] = ('exc', repr(e))

    ta = threading.Thread(target=body_a, daemon=True)
    tb = threading.Thread(target=body_b, daemon=True)
    ta.start()
    reached.wait(60)
    tb.start()
    # B runs to completion - unless it blocks on a lock that the paused A holds: then A goes on. (A is NOT resumed
    # merely because B is slow: on a loaded machine that would turn the schedule into true concurrency, where
    # switches inside functools / the interpreter are possible, which the property does not speak about.)
    if locks:
        waited = 0.0
        while tb.is_alive() and waited < 60:
            tb.join(0.05)
            waited += 0.05
            if not tb.is_alive():
                break
            owned = [_owned_by(lk, ta.ident) for lk in locks]
            if any(o is True for o in owned) and waited >= 0.25:
                break                      # the paused A holds a module lock: B is (or will be) waiting for it
            if all(o is None for o in owned) and waited >= 0.3 and any(not _free(lk) for lk in locks):
                break                      # plain Lock: no owner to read; held for a while
    else:
        tb.join(0.3)
    resume.set()
    ta.join(60)
    tb.join(60)
    return (res.get('a', ('exc', 'thread A did not finish')), res.get('b', ('exc', 'thread B did not finish')),
            state['n'])


def run_overlapped(fn_a, fn_b, ka, kb, files, patience=4.0):
    """Two-preemption schedule in which call B is still in progress when call A RETURNS: A runs up to its ka-th
    traced line and is paused; B starts and runs up to its kb-th traced line and is paused; A resumes and runs to
    completion; B resumes. (Should A block on a lock held by the paused B, B is resumed after `patience` seconds:
    that is the schedule the lock then dictates.) ka / kb = None: count lines only, no pause.
    Returns (result_a, result_b, lines_a, lines_b)."""
    files = set(files)
    n = {'a': 0, 'b': 0}
    reached = {'a': threading.Event(), 'b': threading.Event()}
    resume = {'a': threading.Event(), 'b': threading.Event()}
    res = {}

    def tracer(who, k):
        def local(frame, event, arg):
            if event == 'line':
                n[who] += 1
                if k is not None and n[who] == k:
                    reached[who].set()
                    resume[who].wait(60)
            return local

        def glob(frame, event, arg):
            if event == 'call' and frame.f_code.co_filename in files:
                return local
            return None
        return glob

    def body(who, fn, k):
        def run():
            sys.settrace(tracer(who, k))
            try:
                res[who] = ('ok', fn())
            except BaseException as e:  # noqa
                res[who] = ('exc', repr(e))
            finally:
                sys.settrace(None)
                reached[who].set()
        return run

    ta = threading.Thread(target=body('a', fn_a, ka), daemon=True)
    tb = threading.Thread(target=body('b', fn_b, kb), daemon=True)
    ta.start()
    reached['a'].wait(60)
    tb.start()
    reached['b'].wait(patience if ta.is_alive() else 60)     # B blocked on a lock held by the paused A: A goes on
    resume['a'].set()
    ta.join(patience if tb.is_alive() else 60)
    resume['b'].set()
    ta.join(60)
    tb.join(60)
    return (res.get('a', ('exc', 'thread A did not finish')), res.get('b', ('exc', 'thread B did not finish')),
            n['a'], n['b'])
