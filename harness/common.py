"""Common machinery shared by every check: TLC runner (batch/sharded), verdicts,
known findings, replay files and evidence files.

Run with /venv/bin/python (imports /repo's working tree).
"""
import hashlib
import importlib
import json
import os
import random
import re
import shutil
import subprocess
import sys
import tempfile
import time
from concurrent.futures import ThreadPoolExecutor

VERIF = os.path.dirname(os.path.dirname(os.path.abspath(__file__)))
SPEC_DIR = os.path.join(VERIF, 'spec')
WORK_ROOT = os.path.join(VERIF, '.work')
EVIDENCE_DIR = os.path.join(VERIF, 'evidence')
REPLAY_DIR = os.path.join(VERIF, 'replays')
if os.environ.get('VERIF_REPO'):
    # self-tests against a scratch worktree (seeded changes) must not overwrite the evidence of the real tree
    EVIDENCE_DIR = os.path.join(VERIF, '.work', 'selftest-evidence')
    REPLAY_DIR = os.path.join(VERIF, '.work', 'selftest-replays')
KNOWN_FINDINGS = os.path.join(VERIF, 'known_findings.json')
TLA_JAR = '/opt/veriftools/tla/tla2tools.jar:/opt/veriftools/tla/CommunityModules-deps.jar'
NCPU = os.cpu_count() or 4

os.environ.setdefault('PRETTYPRINTER_VERIF', '1')


class MachineryError(Exception):
    pass


class Timeout(BaseException):
    """Raised inside the main thread when a call into the package exceeds its time budget
    (non-termination becomes an observation instead of a hang)."""


import contextlib
import signal


TIMEOUTS = [0]      # how often a time limit fired in this process


def give_up(n=4):
    """True once `n` calls into the package have run out of time: a universe of thousands of inputs is then abandoned
    (each further input would cost its whole budget) - the violations found so far are reported."""
    return TIMEOUTS[0] >= n


@contextlib.contextmanager
def time_limit(seconds):
    # patience shrinks once calls have been timing out: the first ones get the full budget, later ones a tenth
    if TIMEOUTS[0] >= 25:
        # thousands of inputs at a full budget each would never end: the rest is not attempted (the check has 25
        # non-terminating calls to report already)
        raise Timeout('not attempted: 25 earlier calls into the package ran out of time')
    if TIMEOUTS[0] >= 3:
        seconds = max(1.0, seconds / 10.0)

    def handler(signum, frame):
        TIMEOUTS[0] += 1
        raise Timeout('no result after %.1fs' % seconds)
    old = signal.signal(signal.SIGALRM, handler)
    # repeating: a Timeout raised while the interpreter is inside a destructor / weak-reference callback is swallowed
    # ("Exception ignored in ..."), and a one-shot timer would then never fire again
    signal.setitimer(signal.ITIMER_REAL, seconds, 1.0)
    try:
        yield
    finally:
        signal.setitimer(signal.ITIMER_REAL, 0)
        signal.signal(signal.SIGALRM, old)


def pp_module(name='prettyprinter.prettyprinter'):
    # `import prettyprinter.prettyprinter as x` yields the package (name rebinding
    # in __init__), so always go through importlib.
    return importlib.import_module(name)


# --------------------------------------------------------------------------
# TLC
# --------------------------------------------------------------------------

_STATS = re.compile(r'(\d+) states generated, (\d+) distinct states found')
_PRINTT = re.compile(r'^<<"(ACCEPT|REJECT|OUT|H)"')


class TlcResult:
    def __init__(self, rc, out, wall):
        self.rc = rc
        self.out = out
        self.wall = wall
        self._values = None
        m = _STATS.findall(out)
        self.generated = int(m[-1][0]) if m else 0
        self.distinct = int(m[-1][1]) if m else 0
        self.ok = ('Model checking completed. No error has been found' in out
                   or 'Finished computing initial states' in out and rc == 0)
        self.invariant_violated = 'is violated' in out
        self.error = ('Error:' in out) and not self.invariant_violated

    def values(self):
        """PrintT values (tuples), with TLC's multi-line pretty printing re-joined."""
        if self._values is not None:
            return self._values
        vals = []
        cur = None
        depth = 0
        for l in self.out.splitlines():
            if cur is None:
                if l.startswith('<<'):
                    cur = l
                    depth = l.count('<<') - l.count('>>')
                    if depth <= 0:
                        vals.append(cur)
                        cur = None
            else:
                cur += ' ' + l.strip()
                depth += l.count('<<') - l.count('>>')
                if depth <= 0:
                    vals.append(cur)
                    cur = None
        self._values = vals
        return vals

    def lines(self, tag):
        pref = re.compile(r'^<<\s*"%s"' % tag)
        return [l for l in self.values() if pref.match(l)]


def _die_with_parent():
    """(child side) ask the kernel to kill this TLC process when the check that started it dies: a check that is
    killed (time limit, out of memory) must not leave 16 JVMs behind"""
    try:
        import ctypes
        import signal
        ctypes.CDLL('libc.so.6', use_errno=True).prctl(1, signal.SIGKILL)     # PR_SET_PDEATHSIG
    except Exception:  # noqa
        pass


def run_tlc(module, cfg_text, workdir, env=None, workers=1, extra=(), timeout=3600,
            heap='2g', simulate=None, deadlock=False):
    """Run TLC on spec/<module>.tla with the given cfg text. Returns TlcResult."""
    os.makedirs(workdir, exist_ok=True)
    cfg = os.path.join(workdir, module + '.cfg')
    with open(cfg, 'w') as f:
        f.write(cfg_text)
    meta = os.path.join(workdir, 'meta')
    jtmp = os.path.join(workdir, 'jtmp')     # TLC leaves an empty tlc-<n> directory per run in java.io.tmpdir
    os.makedirs(jtmp, exist_ok=True)
    cmd = ['java', '-XX:+UseParallelGC', '-Xss512m', '-Xmx' + heap, '-Djava.io.tmpdir=' + jtmp, '-cp', TLA_JAR, 'tlc2.TLC',
           '-workers', str(workers), '-metadir', meta, '-noGenerateSpecTE',
           '-config', cfg]
    if not deadlock:
        cmd += ['-deadlock']
    if simulate:
        cmd += ['-simulate', simulate]
    cmd += list(extra)
    cmd += [os.path.join(SPEC_DIR, module + '.tla')]
    e = dict(os.environ)
    if env:
        e.update({k: str(v) for k, v in env.items()})
    t0 = time.time()
    try:
        p = subprocess.run(cmd, cwd=SPEC_DIR, env=e, stdout=subprocess.PIPE,
                           stderr=subprocess.STDOUT, timeout=timeout, text=True, preexec_fn=_die_with_parent)
        out, rc = p.stdout, p.returncode
    except subprocess.TimeoutExpired as ex:
        out = (ex.stdout or b'').decode('utf8', 'replace') if isinstance(ex.stdout, bytes) else (ex.stdout or '')
        out += '\nTLC TIMEOUT'
        rc = 124
    shutil.rmtree(meta, ignore_errors=True)
    return TlcResult(rc, out, time.time() - t0)


def _sanitize(x):
    """TLC's Json module cannot read null: drop None-valued keys (harness-only annotations)."""
    if isinstance(x, dict):
        return {k: _sanitize(v) for k, v in x.items() if v is not None}
    if isinstance(x, (list, tuple)):
        return [_sanitize(v) for v in x]
    return x


def write_ndjson(path, records):
    with open(path, 'w') as f:
        for r in records:
            f.write(json.dumps(_sanitize(r), separators=(',', ':')))
            f.write('\n')


def tlc_batch(module, cfg_text, cases, workdir, shards=None, env=None, timeout=3600,
              heap='1500m', tags=('ACCEPT',), idpos=1, min_per_shard=200):
    """Validate `cases` (list of dicts with unique integer 'id') with spec `module`.

    Cases are sharded over several single-worker TLC processes (so PrintT lines do
    not interleave). Returns (verdicts, stats): verdicts maps tag -> {id: [payload lines]}.
    """
    if not cases:
        return {t: {} for t in tags}, {'generated': 0, 'distinct': 0, 'wall': 0.0, 'runs': 0}
    if shards is None:
        shards = max(1, min(NCPU, len(cases) // min_per_shard or 1))
    parts = [cases[i::shards] for i in range(shards)]
    parts = [p for p in parts if p]

    def one(i):
        wd = os.path.join(workdir, 'shard%02d' % i)
        os.makedirs(wd, exist_ok=True)
        cf = os.path.join(wd, 'cases.ndjson')
        write_ndjson(cf, parts[i])
        e = dict(env or {})
        e['CASES'] = cf
        r = run_tlc(module, cfg_text, wd, env=e, workers=1, timeout=timeout, heap=heap)
        return r

    with ThreadPoolExecutor(max_workers=len(parts)) as ex:
        results = list(ex.map(one, range(len(parts))))
    verdicts = {t: {} for t in tags}
    gen = dist = 0
    wall = 0.0
    for i, r in enumerate(results):
        if not r.ok:
            lines = r.out.splitlines()
            first = next((j for j, l in enumerate(lines) if l.startswith('Error')), max(0, len(lines) - 40))
            tail = '\n'.join(lines[first:first + 25] + ['...'] + lines[-6:])
            raise MachineryError('TLC failed on %s shard %d (rc=%s):\n%s' % (module, i, r.rc, tail))
        gen += r.generated
        dist += r.distinct
        wall = max(wall, r.wall)
        for t in tags:
            for line in r.lines(t):
                vals = parse_tla_value(line)
                verdicts[t].setdefault(vals[idpos], []).append(vals)
    return verdicts, {'generated': gen, 'distinct': dist, 'wall': wall, 'runs': len(parts)}


# ---- a small parser for TLC's printed values (tuples, sets, strings, ints, bools, records)

def parse_tla_value(s):
    pos = 0
    n = len(s)

    def ws():
        nonlocal pos
        while pos < n and s[pos] in ' \t\r\n':
            pos += 1

    def val():
        nonlocal pos
        ws()
        if s.startswith('<<', pos):
            pos += 2
            items = []
            ws()
            if s.startswith('>>', pos):
                pos += 2
                return items
            while True:
                items.append(val())
                ws()
                if s.startswith('>>', pos):
                    pos += 2
                    return items
                assert s[pos] == ',', (s, pos)
                pos += 1
        if s[pos] == '{':
            pos += 1
            items = []
            ws()
            if s[pos] == '}':
                pos += 1
                return ('set', items)
            while True:
                items.append(val())
                ws()
                if s[pos] == '}':
                    pos += 1
                    return ('set', items)
                assert s[pos] == ',', (s, pos)
                pos += 1
        if s[pos] == '[':
            pos += 1
            rec = {}
            while True:
                ws()
                m = re.compile(r'([A-Za-z_][A-Za-z0-9_]*)\s*\|->').match(s, pos)
                assert m, (s, pos)
                pos = m.end()
                rec[m.group(1)] = val()
                ws()
                if s[pos] == ']':
                    pos += 1
                    return rec
                assert s[pos] == ',', (s, pos)
                pos += 1
        if s[pos] == '"':
            pos += 1
            out = []
            while s[pos] != '"':
                if s[pos] == '\\':
                    pos += 1
                    c = s[pos]
                    out.append({'n': '\n', 't': '\t', '"': '"', '\\': '\\'}.get(c, c))
                else:
                    out.append(s[pos])
                pos += 1
            pos += 1
            return ''.join(out)
        m = re.compile(r'-?\d+').match(s, pos)
        if m:
            pos = m.end()
            return int(m.group(0))
        m = re.compile(r'TRUE|FALSE').match(s, pos)
        if m:
            pos = m.end()
            return m.group(0) == 'TRUE'
        m = re.compile(r'[A-Za-z_][A-Za-z0-9_]*').match(s, pos)
        if m:
            pos = m.end()
            return m.group(0)
        raise ValueError('cannot parse TLA value at %d: %r' % (pos, s[pos:pos + 40]))

    return val()


# --------------------------------------------------------------------------
# verdict bookkeeping
# --------------------------------------------------------------------------

def load_known_findings():
    if not os.path.exists(KNOWN_FINDINGS):
        return {'findings': [], 'fixed': []}
    with open(KNOWN_FINDINGS) as f:
        return json.load(f)


class Check:
    """One run of one property's check."""

    def __init__(self, pid, level, tier=None, seed=None):
        self.pid = pid
        self.level = level
        self.tier = tier or os.environ.get('VERIF_TIER') or 'quick'
        if self.tier not in ('quick', 'thorough'):
            self.tier = 'quick'
        s = seed if seed is not None else os.environ.get('VERIF_SEED', '0')
        try:
            self.seed = int(s)
        except ValueError:
            self.seed = 0
        self.rng = random.Random(self.seed)
        self.t0 = time.time()
        self.workdir = os.path.join(WORK_ROOT, '%s-%d' % (pid, os.getpid()))
        shutil.rmtree(self.workdir, ignore_errors=True)
        os.makedirs(self.workdir, exist_ok=True)
        self.violations = []      # (clause, description, replay-payload)
        self.known_hits = {}      # finding key -> count
        self.drift = []
        self.machinery = []
        self.cov = {
            'evaluations': 0, 'distinct_nontrivial': 0, 'rule': '', 'samples': [],
            'states': 0, 'transitions': 0, 'traces_validated_against_impl': 0,
            'canaries_rejected': 0, 'canaries_total': 0, 'stages': [],
        }
        self.assumptions = []
        kf = load_known_findings()
        self.findings = [f for f in kf.get('findings', []) if f.get('property') == pid]
        self._nontrivial = set()

    # ---- accounting
    def stage(self, name, **kw):
        rec = dict(name=name, **kw)
        self.cov['stages'].append(rec)
        print('[%s] %s: %s' % (self.pid, name, ' '.join('%s=%s' % kv for kv in kw.items())), flush=True)

    def add_model(self, stats):
        self.cov['states'] += int(stats.get('distinct', 0))
        self.cov['transitions'] += int(stats.get('generated', 0))

    def add_tlc(self, r):
        self.cov['states'] += r.distinct
        self.cov['transitions'] += r.generated

    def nontrivial(self, key):
        # (the hash, not the key: millions of keys are counted in the thorough tier)
        self._nontrivial.add(hash(key))

    def sample(self, x, limit=8):
        if len(self.cov['samples']) < limit:
            self.cov['samples'].append(x)

    # ---- findings
    def match_finding(self, clause, cls):
        for f in self.findings:
            if f.get('clause') == clause and f.get('class') == cls:
                return f
        return None

    def known(self, finding, what=None):
        k = finding['key']
        self.known_hits[k] = self.known_hits.get(k, 0) + 1

    def violation(self, clause, desc, payload):
        self.violations.append((clause, desc, payload))

    def drifted(self, desc, payload=None):
        self.drift.append((desc, payload))

    def machinery_error(self, desc):
        self.machinery.append(desc)

    # ---- finish
    def write_replay(self, clause, desc, payload):
        d = os.path.join(REPLAY_DIR, self.pid)
        os.makedirs(d, exist_ok=True)
        body = json.dumps({'property': self.pid, 'clause': clause, 'description': desc,
                           'case': payload, 'tier': self.tier, 'seed': self.seed},
                          indent=1, sort_keys=True, default=repr)
        h = hashlib.sha1(body.encode()).hexdigest()[:16]
        path = os.path.join(d, h + '.json')
        with open(path, 'w') as f:
            f.write(body)
        return path

    def finish(self):
        wall = time.time() - self.t0
        cov = self.cov
        cov['distinct_nontrivial'] = max(cov['distinct_nontrivial'], len(self._nontrivial))
        cov['drift'] = len(self.drift)
        cov['model_transfers'] = not self.drift
        cov['known_findings_hit'] = dict(self.known_hits)
        if self.drift:
            cov['drift_samples'] = [d for d, _ in self.drift[:5]]
        if not cov['samples']:
            cov['samples'] = ['(no sample recorded)']
        ev = {
            'property_id': self.pid, 'tier': self.tier, 'seed': self.seed,
            'level': self.level, 'coverage': cov, 'assumptions': self.assumptions,
            'wall_s': round(wall, 2), 'violations': len(self.violations),
        }
        os.makedirs(EVIDENCE_DIR, exist_ok=True)
        with open(os.path.join(EVIDENCE_DIR, self.pid + '.json'), 'w') as f:
            json.dump(ev, f, indent=1, sort_keys=True, default=repr)
        shutil.rmtree(self.workdir, ignore_errors=True)
        try:
            os.rmdir(WORK_ROOT)
        except OSError:
            pass
        for f in self.findings:
            if self.known_hits.get(f['key']):
                print('KNOWN-FINDING: property=%s %s (%d cases)' % (
                    self.pid, f['what'], self.known_hits[f['key']]))
        for d, _ in self.drift[:10]:
            print('DRIFT property=%s %s' % (self.pid, d))
        if self.machinery:
            for m in self.machinery[:10]:
                print('MACHINERY-ERROR property=%s %s' % (self.pid, m))
            print('[%s] machinery failure; wall %.1fs' % (self.pid, wall))
            return 2
        if self.violations:
            seen = set()
            for clause, desc, payload in self.violations[:20]:
                path = self.write_replay(clause, desc, payload)
                if path in seen:
                    continue
                seen.add(path)
                print('VIOLATION property=%s replay=%s' % (self.pid, path))
                print('    clause=%s %s' % (clause, desc))
            print('[%s] %d violation(s); wall %.1fs' % (self.pid, len(self.violations), wall))
            return 1
        print('[%s] OK tier=%s evaluations=%d nontrivial=%d states=%d traces=%d wall=%.1fs' % (
            self.pid, self.tier, cov['evaluations'], cov['distinct_nontrivial'],
            cov['states'], cov['traces_validated_against_impl'], wall))
        return 0


def main_wrapper(fn, pid, level):
    import argparse
    ap = argparse.ArgumentParser()
    ap.add_argument('--tier', default=None)
    ap.add_argument('--replay', default=None)
    args = ap.parse_args(sys.argv[2:])
    chk = Check(pid, level, tier=args.tier)
    try:
        fn(chk, args)
    except MachineryError as e:
        chk.machinery_error(str(e))
    except Exception as e:  # noqa
        import traceback
        traceback.print_exc()
        chk.machinery_error('harness exception: %r' % (e,))
    rc = chk.finish()
    sys.exit(rc)
