"""Observation extractors for the value-level properties: real Python values -> value
terms, pformat output text -> syntax terms (ast.parse only; nothing is evaluated for the
TLA+ verdict). The acceptance predicates are in spec/PyTerm.tla."""
import ast
import io
import math
import re
import tokenize


class ParseError(Exception):
    pass


def codes(s):
    if isinstance(s, bytes):
        return list(s)
    return [ord(ch) for ch in s]


import types as _types

# user types printed through pretty_call: type -> fn(v) -> (printed name, args, [(kw, value)...])
CALL_VALUES = {}


def value_term(v, sort=False, subs=None):
    """Exact-type value term. subs: dict class -> (qualname, base kind) of known subclasses."""
    t = type(v)
    if subs and t in subs:
        qual, kind = subs[t]
        base = {'list': list, 'tuple': tuple, 'set': set, 'frozenset': frozenset, 'dict': dict, 'str': str,
                'bytes': bytes, 'int': int, 'float': float}[kind]
        if kind in ('int', 'float'):
            inner = base.__new__(base, v)
        elif kind in ('str', 'bytes'):
            inner = base.__getitem__(v, slice(None))    # exact str/bytes, bypassing __str__
            assert type(inner) is base
        elif kind == 'dict':
            inner = dict(v.items())
        else:
            inner = base(v)
        return ['sub', qual, value_term(inner, sort, subs)]
    if t in CALL_VALUES:
        name, args, kws = CALL_VALUES[t](v)
        return ['call', name, [value_term(a, sort, subs) for a in args], [[k, value_term(x, sort, subs)] for k, x in kws]]
    if isinstance(v, tuple) and hasattr(t, '_fields') and t is not tuple:
        mod = t.__module__
        name = t.__qualname__ if mod in ('builtins', '__main__') else '%s.%s' % (mod, t.__qualname__)
        return ['call', name, [], [[f, value_term(x, sort, subs)] for f, x in zip(t._fields, v)]]
    if t is _types.SimpleNamespace:
        return ['call', 'types.SimpleNamespace', [], [[k, value_term(v.__dict__[k], sort, subs)] for k in sorted(v.__dict__)]]
    if t is bool:
        return ['bool', 1 if v else 0]
    if t is int:
        return ['int', str(v)]
    if t is float:
        return ['float', repr(v)]
    if v is None:
        return ['none']
    if v is Ellipsis:
        return ['ellipsis']
    if t is str:
        return ['str', codes(v)]
    if t is bytes:
        return ['bytes', codes(v)]
    if t in (list, tuple, set, frozenset):
        return [t.__name__, [value_term(x, sort, subs) for x in v]]
    if t is dict:
        keys = list(v.keys())
        kind = 'dict'
        if sort:
            try:
                keys = sorted(keys)
            except TypeError:
                kind = 'dictany'     # keys not mutually comparable: order unspecified
        return [kind, [[value_term(k, sort, subs), value_term(v[k], sort, subs)] for k in keys]]
    raise ValueError('no value term for %r' % (t,))


_REC = re.compile(r'<Recursion on (\w+) with id=(\d+)>')


def dotted(node):
    if isinstance(node, ast.Name):
        return node.id
    if isinstance(node, ast.Attribute):
        b = dotted(node.value)
        return None if b is None else b + '.' + node.attr
    return None


def ast_term(node):
    if isinstance(node, ast.Constant):
        v = node.value
        if v is True or v is False:
            return ['bool', 1 if v else 0]
        if v is None:
            return ['none']
        if v is Ellipsis:
            return ['ellipsis']
        if isinstance(v, int):
            return ['int', str(v)]
        if isinstance(v, float):
            return ['float', repr(v)]
        if isinstance(v, str):
            return ['str', codes(v)]
        if isinstance(v, bytes):
            return ['bytes', codes(v)]
        return ['other', type(v).__name__]
    if isinstance(node, ast.List):
        return ['list', [ast_term(x) for x in node.elts]]
    if isinstance(node, ast.Tuple):
        return ['tuple', [ast_term(x) for x in node.elts]]
    if isinstance(node, ast.Set):
        return ['set', [ast_term(x) for x in node.elts]]
    if isinstance(node, ast.Dict):
        if any(k is None for k in node.keys):
            return ['other', 'dict-unpack']
        return ['dict', [[ast_term(k), ast_term(v)] for k, v in zip(node.keys, node.values)]]
    if isinstance(node, ast.UnaryOp) and isinstance(node.op, ast.USub):
        return ['neg', ast_term(node.operand)]
    if isinstance(node, ast.Call):
        f = dotted(node.func)
        if f is None or any(isinstance(a, ast.Starred) for a in node.args) or any(k.arg is None for k in node.keywords):
            return ['other', 'call']
        return ['call', f, [ast_term(a) for a in node.args], [[k.arg, ast_term(k.value)] for k in node.keywords]]
    if isinstance(node, (ast.Name, ast.Attribute)):
        d = dotted(node)
        if d is None:
            return ['other', 'attr']
        return ['name', d]
    if isinstance(node, ast.BinOp):
        op = {ast.Add: '+', ast.Mult: '*', ast.Sub: '-'}.get(type(node.op))
        if op:
            return ['binop', op, ast_term(node.left), ast_term(node.right)]
    return ['other', type(node).__name__]


def parse_output(text, recursion_ids=None):
    """pformat output -> syntax term. Recursion markers become <<"rec", type, node>> via
    recursion_ids: id(int) -> node label."""
    src = text
    recs = {}

    def repl(m):
        name = 'VERIFREC%d' % len(recs)
        ident = int(m.group(2))
        recs[name] = ['rec', m.group(1), (recursion_ids or {}).get(ident, -1)]
        return name
    src = _REC.sub(repl, src)
    try:
        tree = ast.parse('(' + src + '\n)', mode='eval')
    except (SyntaxError, ValueError, MemoryError, RecursionError) as e:
        raise ParseError(repr(e))
    term = ast_term(tree.body)
    if recs:
        term = _subst(term, recs)
    return term


def _subst(t, recs):
    if isinstance(t, list):
        if len(t) == 2 and t[0] == 'name' and t[1] in recs:
            return recs[t[1]]
        return [_subst(x, recs) for x in t]
    return t


def comment_tokens(text):
    """The COMMENT tokens of the output (trusted lexer)."""
    out = []
    try:
        for tok in tokenize.generate_tokens(io.StringIO('(' + text + '\n)').readline):
            if tok.type == tokenize.COMMENT:
                out.append(tok.string)
    except (tokenize.TokenError, IndentationError, SyntaxError, UnicodeDecodeError) as e:
        # UnicodeDecodeError: CPython 3.12's tokenizer on a raw carriage return before a non-ASCII character
        raise ParseError('cannot be tokenised: ' + repr(e))
    return out


def typed_equal(a, b, sort=False):
    """Python cross-oracle: structural equality with exact types (nan = nan, -0.0 != 0.0).
    a = evaluated output, b = original value. Dict order: insertion order of b, or, with
    sort, ascending key order when b's keys are mutually comparable (any order otherwise)."""
    if type(a) is not type(b):
        return False
    if isinstance(a, float):
        return repr(a) == repr(b)
    if isinstance(a, (list, tuple)):
        return len(a) == len(b) and all(typed_equal(x, y, sort) for x, y in zip(a, b))
    if isinstance(a, (set, frozenset)):
        if len(a) != len(b):
            return False
        bl = list(b)
        for x in a:
            for i, y in enumerate(bl):
                if typed_equal(x, y, sort):
                    del bl[i]
                    break
            else:
                return False
        return True
    if isinstance(a, dict):
        if len(a) != len(b):
            return False
        bkeys = list(b.keys())
        unordered = False
        if sort:
            try:
                bkeys = sorted(bkeys)
            except TypeError:
                unordered = True
        if not unordered:
            return all(typed_equal(k1, k2, sort) and typed_equal(a[k1], b[k2], sort)
                       for k1, k2 in zip(a.keys(), bkeys))
        rest = list(bkeys)
        for k1 in a.keys():
            for i, k2 in enumerate(rest):
                if typed_equal(k1, k2, sort) and typed_equal(a[k1], b[k2], sort):
                    del rest[i]
                    break
            else:
                return False
        return True
    return a == b


def typed_equal_sub(a, b, subs):
    """typed_equal extended to instances of known subclasses of built-in types."""
    if type(a) is not type(b):
        return False
    t = type(a)
    if t in subs:
        kind = subs[t][1]
        base = {'list': list, 'tuple': tuple, 'set': set, 'frozenset': frozenset, 'dict': dict, 'str': str,
                'bytes': bytes, 'int': int, 'float': float}[kind]
        if kind in ('int', 'float'):
            return typed_equal(base.__new__(base, a), base.__new__(base, b))
        if kind == 'dict':
            return typed_equal_sub(dict(a.items()), dict(b.items()), subs)
        if kind in ('str', 'bytes'):
            return base.__getitem__(a, slice(None)) == base.__getitem__(b, slice(None))
        return typed_equal_sub(base(a), base(b), subs)
    if isinstance(a, (list, tuple)):
        return len(a) == len(b) and all(typed_equal_sub(x, y, subs) for x, y in zip(a, b))
    if isinstance(a, dict):
        return len(a) == len(b) and all(typed_equal_sub(k1, k2, subs) and typed_equal_sub(a[k1], b[k2], subs)
                                        for k1, k2 in zip(a.keys(), b.keys()))
    if isinstance(a, (set, frozenset)):
        return len(a) == len(b) and all(any(typed_equal_sub(x, y, subs) for y in b) for x in a)
    return typed_equal(a, b)
