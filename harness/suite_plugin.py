"""pytest plugin (-p suite_plugin): records every layout call the repository's own tests
make, as LayoutSpec cases (ndjson at $VERIF_SUITE_OUT). No repository file is touched:
prettyprinter.prettyprinter.layout_smart is a module global looked up at call time."""
import json
import os
import sys

sys.path.insert(0, os.path.dirname(os.path.abspath(__file__)))

_state = {}


def pytest_configure(config):
    import doccapture
    import layoutgen as G
    PP = doccapture.PP
    orig = PP.layout_smart
    cases = []
    _state.update(orig=orig, cases=cases, PP=PP)
    limit = int(os.environ.get('VERIF_SUITE_MAX_NODES', '2500'))

    def wrapped(doc, width=79, ribbon_frac=0.9):
        try:
            table = doccapture.Table()
            root = table.convert(doc)
        except Exception as e:  # not a document we can serialise: let the engine deal with it
            return orig(doc, width=width, ribbon_frac=ribbon_frac)
        stream = list(orig(doc, width=width, ribbon_frac=ribbon_frac))
        if len(table.nodes) <= limit:
            done = {(e['node'], e['ind'], e['col']) for e in table.ctxt}
            for objid, nids in table.ctx_nodes.items():
                for e in [e for e in table.ctxt if e['node'] in nids]:
                    for n in nids:
                        if (n, e['ind'], e['col']) not in done:
                            done.add((n, e['ind'], e['col']))
                            table.ctxt.append({'node': n, 'ind': e['ind'], 'col': e['col'], 'root': e['root']})
            call = {'nodes': table.nodes, 'root': root, 'ctxt': table.ctxt, 'W': width, 'ribbon_frac': ribbon_frac,
                    'stream': stream}
            try:
                c = doccapture.case_from_call(len(cases) + 1, call)
                c['test'] = os.environ.get('PYTEST_CURRENT_TEST', '')[:120]
                cases.append(c)
            except Exception:
                pass
        return iter(stream)

    PP.layout_smart = wrapped


def pytest_unconfigure(config):
    if not _state:
        return
    _state['PP'].layout_smart = _state['orig']
    out = os.environ.get('VERIF_SUITE_OUT')
    if out:
        with open(out, 'w') as f:
            for c in _state['cases']:
                f.write(json.dumps(c, separators=(',', ':')) + '\n')
