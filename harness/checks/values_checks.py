"""Value-level properties decided with spec/PyTerm.tla (+TermTrace.tla): C01."""
import itertools
import os
import warnings

import common
import pyterm
import values as V
import prettyprinter as P

CFG = "INIT Init\nNEXT Next\nINVARIANT Report\nCHECK_DEADLOCK FALSE\n"

LEAVES = [0, -1, 2 ** 70, 1.5, -0.0, 0.0, float('inf'), float('-inf'), float('nan'), 1e300, True, False, None,
          Ellipsis, '', 'a', "'", '"', '\\', ' ', '\n', 'é', '\x00', "it's \"q\"", 'x' * 30,
          'the quick brown fox jumps over the lazy dog and keeps on running', b'', b'a', b"'", b'\xff\x00',
          b'bytes ' * 8,
          # both quote kinds in both majorities, long enough to be split into pieces that hold one kind only
          'both \' and "', 'it\'s \'x\' "y', '"a" "b" \'c', 'say "hi" it\'s a \'test\' of "quotes" here',
          b'both \' and " in bytes', b'it\'s \'x\' "y" bytes',
          # long, no whitespace, punctuation only: split at non-word characters
          b'/usr/local/lib/python3.11/site-packages/prettyprinter/__init__.py', 'pkg.module.sub-module:Class.method;arg=1,2|x' * 2,
          b'\xff\xfe-\x00\x01/\x80.\x81' * 6]
HASHABLE_LEAVES = LEAVES


def shapes():
    """Container skeletons with numbered leaf slots: nested tuples ('list', children...) / ('leaf',)."""
    L = ('leaf',)
    kinds = ['list', 'tuple', 'set', 'frozenset', 'dict']
    out = [L]
    one = []
    for k in kinds:
        one.append((k,))                 # empty
        one.append((k, L))               # one element (dict: leaf key -> leaf value handled in build)
        one.append((k, L, L))
    out += one
    two = []
    for k in kinds:
        for inner in one:
            two.append((k, inner))
            two.append((k, L, inner))
    out += two
    three = []
    for k in ('list', 'dict', 'tuple'):
        for inner in two[::3]:
            three.append((k, inner))
    out += three
    return out


def count_leaves(sh):
    if sh == ('leaf',):
        return 1
    k = sh[0]
    n = sum(count_leaves(c) for c in sh[1:])
    if k == 'dict':
        n += len(sh) - 1      # a leaf key per entry
    return n


class Unbuildable(Exception):
    pass


def build(sh, leaves):
    """Instantiate a shape; leaves is an iterator of leaf values."""
    if sh == ('leaf',):
        return next(leaves)
    k = sh[0]
    if k == 'dict':
        d = {}
        for c in sh[1:]:
            key = next(leaves)
            d[key] = build(c, leaves)
        if len(d) != len(sh) - 1:
            raise Unbuildable()
        return d
    items = [build(c, leaves) for c in sh[1:]]
    if k == 'list':
        return items
    if k == 'tuple':
        return tuple(items)
    try:
        r = set(items) if k == 'set' else frozenset(items)
    except TypeError:
        raise Unbuildable()
    if len(r) != len(items):
        raise Unbuildable()
    return r


def value_universe(chk):
    rng = chk.rng
    q = chk.tier == 'quick'
    vals = []
    for sh in shapes():
        n = count_leaves(sh)
        if n == 0:
            combos = [()]
        elif n == 1:
            combos = [(l,) for l in LEAVES]
        elif n == 2 and not q:
            combos = list(itertools.product(LEAVES, LEAVES))
        else:
            combos = [tuple(rng.choice(LEAVES) for _ in range(n)) for _ in range(6 if q else 40)]
        for c in combos:
            try:
                vals.append(build(sh, iter(c)))
            except (Unbuildable, TypeError):
                continue
    for i in range(150 if q else 4000):
        vals.append(V.random_value(rng, depth=rng.choice([2, 3, 4, 5]), leaves=LEAVES))
    # long flat containers (the printers switch strategy for long sequences: always-broken above ~50 elements,
    # truncation above max_seq_len = 1000): every leaf kind must survive inside them too
    hashable = [l for l in LEAVES if not (isinstance(l, float) and l != l)]
    for n in (51, 52, 130, 1000):
        seq = [LEAVES[i % len(LEAVES)] if i % 3 else i for i in range(n)]
        hs = [hashable[i % len(hashable)] if i % 3 else i for i in range(n)]
        vals.append(seq)
        vals.append(tuple(seq))
        vals.append([seq[:n // 2], tuple(seq[n // 2:])])
        vals.append(set(hs))
        vals.append(frozenset(hs))
        vals.append({(h if i % 2 else (i, h)): seq[i] for i, h in enumerate(hs)})
    vals.append([float('inf')] * 51 + [float('nan'), float('-inf'), -0.0])
    # SIBLING containers of one kind with different contents (the skeletons above nest, they hardly ever put two
    # containers of a kind side by side): what is worked out for one sibling must not be taken for the next
    mk = {'list': list, 'tuple': tuple, 'set': set, 'frozenset': frozenset,
          'dict': lambda xs: {x: i for i, x in enumerate(xs)}}
    for kind, make in mk.items():
        for rep in range(2 if q else 12):
            pick = lambda k: [rng.choice(hashable) for _ in range(k)]  # noqa
            a, b, c = make(pick(1)), make(pick(2)), make(pick(1) + [rep])
            vals.append([a, b])
            vals.append((a, b, c))
            vals.append({'x': a, 'y': b, 'z': c})
            vals.append([a, [b], (c,)])
            vals.append({1: a, 2: [b, c]})
            if kind in ('tuple', 'frozenset'):
                vals.append({a, b, c})
                vals.append(frozenset([a, b]))
                vals.append({a: 1, b: 2, c: a})
                vals.append(make([a, b, c]))
    # the documented counter-example region: nesting so deep that no width is left
    for leaf in ('', b'', 'a', 'word ' * 5):
        v = leaf
        for _ in range(20):
            v = [v]
        vals.append(v)
    return vals


def configs(rng, one_line_len, n, all_widths):
    L = one_line_len
    widths = list(range(1, min(L + 3, 200) + 1)) + [79, 200]
    cfgs = []
    if all_widths:
        for w in widths:
            cfgs.append((w, rng.choice([1, max(1, w // 2), w, 200]), rng.choice([1, 2, 4, 8]), rng.random() < 0.5))
    else:
        cfgs.append((79, 71, 4, False))
        cfgs.append((1, 1, rng.choice([1, 4]), True))
        while len(cfgs) < n:
            w = rng.choice(widths)
            cfgs.append((w, rng.choice([1, max(1, w // 2), w, 200]), rng.choice([1, 2, 4, 8]), rng.random() < 0.5))
    return cfgs


def drive(chk, prop, jobs, subs=(), env=None, mode='eq', rule='', syntactic=False):
    """Generic pipeline: print -> parse (syntax only) -> TLC judges TEq(Denote(obs), expected).

    jobs yields (key, value, cfg, expected_term, oracle) where oracle(evaluated) -> bool is the
    Python cross-oracle; key identifies the value (outputs are de-duplicated per key)."""
    cases = {}
    meta = {}
    nprints = 0
    ntimeouts = 0
    genv = {'__builtins__': {'float': float, 'set': set, 'frozenset': frozenset}}
    genv.update(env or {})
    for key, v, cfg, expected, oracle in jobs:
        nprints += 1
        desc = {'value': repr(v)[:300], 'config': cfg}
        try:
            with warnings.catch_warnings(record=True) as wl:
                warnings.simplefilter('always')
                with common.time_limit(20):
                    out = P.pformat(v, **cfg)
        except (Exception, common.Timeout) as e:  # noqa
            chk.violation(prop + '.raises', 'pformat(%.200r, %r) raised %r' % (v, cfg, e), desc)
            if isinstance(e, common.Timeout):
                ntimeouts += 1
                if ntimeouts >= 3:
                    break
            continue
        if any('raised an exception' in str(x.message) for x in wl):
            chk.violation(prop + '.printer-failed', 'pformat(%.200r, %r): a printer failed and fell back to repr: %s'
                          % (v, cfg, [str(x.message)[:200] for x in wl][:1]), desc)
            continue
        ck = (key, out, repr(expected) if cfg.get('sort_dict_keys') else '')
        if ck in cases:
            continue
        desc['output'] = out
        try:
            obs = pyterm.parse_output(out)
        except pyterm.ParseError as e:
            chk.violation(prop + '.syntax', 'pformat(%.200r, %r) is not an expression: %s\n%s' % (v, cfg, e, out), desc)
            continue
        cid = len(cases) + 1
        cases[ck] = {'id': cid, 'mode': mode, 'obs': obs, 'val': expected, 'subs': [list(x) for x in subs],
                     'N': 0, 'notices': []}
        try:
            back = eval('(' + out + '\n)', dict(genv))
            ok = bool(oracle(back))
        except Exception:
            ok = False
        meta[cid] = (desc, ok)
        chk.nontrivial((key, out))
    caselist = list(cases.values())
    can = []
    for c in caselist[:: max(1, len(caselist) // 30)][:30]:
        k = dict(c)
        k['id'] = len(caselist) + len(can) + 1
        k['val'] = ['list', [c['val'], ['none']]]
        can.append(k)
    v, st = common.tlc_batch('TermTrace', CFG, caselist + can, os.path.join(chk.workdir, 'terms'), tags=('ACCEPT',),
                             min_per_shard=300, heap='2g')
    chk.add_model(st)
    acc = v['ACCEPT']
    chk.cov['canaries_total'] += len(can)
    for k in can:
        if k['id'] in acc:
            chk.machinery_error('canary accepted by TermTrace')
        else:
            chk.cov['canaries_rejected'] += 1
    nrej = 0
    for c in caselist:
        desc, py_ok = meta[c['id']]
        tla_ok = c['id'] in acc
        # syntactic: the property also prescribes the FORM of the text (C08: a call of the subclass around the literal),
        # which evaluation cannot see - there only "accepted by the spec but not evaluating equal" is a disagreement
        if tla_ok != py_ok and not (syntactic and py_ok):
            chk.machinery_error('PyTerm.tla and the Python cross-oracle disagree (tla=%s, python=%s) on %r'
                                % (tla_ok, py_ok, desc))
        if not tla_ok:
            nrej += 1
            chk.violation(prop + '.roundtrip', 'pformat(%s, %r) = %r does not denote an equal value of the same types'
                          % (desc['value'], desc['config'], desc['output']), desc)
    chk.cov['evaluations'] += nprints
    chk.cov['traces_validated_against_impl'] += len(caselist)
    if rule:
        chk.cov['rule'] = rule
    for c in caselist[:: max(1, len(caselist) // 5)][:5]:
        chk.sample(meta[c['id']][0])
    chk.stage('tlc.validate', prints=nprints, distinct_outputs=len(caselist), rejected=nrej, states=st['distinct'],
              wall=round(st['wall'], 1))
    return nrej


def check_c01(chk, args):
    q = chk.tier == 'quick'
    rng = chk.rng
    vals = value_universe(chk)
    chk.stage('universe', values=len(vals))

    def jobs():
        for vi, v in enumerate(vals):
            try:
                with warnings.catch_warnings():
                    warnings.simplefilter('ignore')
                    with common.time_limit(20):
                        one = P.pformat(v, width=10 ** 6, ribbon_width=10 ** 6)
                L = len(one) if '\n' not in one else 60
            except (Exception, common.Timeout):
                L = 40
            for (w, rw, ind, srt) in configs(rng, L, 8 if q else 14, all_widths=(not q and vi % 5 == 0)):
                cfg = {'width': w, 'ribbon_width': rw, 'indent': ind, 'sort_dict_keys': srt}
                yield (vi, v, cfg, pyterm.value_term(v, sort=srt),
                       (lambda back, v=v, srt=srt: pyterm.typed_equal(back, v, sort=srt)))

    drive(chk, 'C01', jobs(), rule=(
        'value trees over the built-in literal types: all container skeletons with <= 3 containers, leaves '
        'from an adversarial alphabet (exhaustive for 1 leaf, for 2 leaves in the thorough tier, sampled '
        'beyond), random trees to depth 5, 20-deep nestings; x widths 1..L+3, 79, 200 x ribbon x indent x '
        'sort; distinct = distinct (value, output text); every distinct output is parsed (ast, syntax '
        'only) and judged by TLC with PyTerm!TEq(Denote(obs), value)'))
    chk.assumptions += ['ast.parse is the trusted lexer/parser; Python eval + typed equality is run as a cross-oracle and '
                        'any disagreement with the TLA+ verdict is a machinery error']
    printers_binding(chk, vals)


SUB_TYPES = {}      # subclass of a built-in type -> (printed constructor name, base kind)
CALL_TYPES = {}     # type -> function(v) -> (name, args, [(kw, value)...]) for user types printed through pretty_call


def std_term(v, sort):
    """['std', kind, printed name, a, b] for the standard-library containers Printers!PStd transcribes."""
    import collections
    import types
    t = type(v)
    mt = lambda x: model_term(x, sort)   # noqa
    opairs = lambda d: [[mt(k), mt(x)] for k, x in d.items()]   # noqa  (a list of pairs: order kept)

    def pairs(d):
        # the dict handed to pretty_call_alt is printed by pretty_dict: with sort_dict_keys its keys are sorted
        term = mt(dict(d))
        if term[0] != 'dict':
            raise ValueError('keys cannot be sorted')
        return term[1]
    cd = pyterm.codes
    if t is collections.OrderedDict:
        return ['std', 'OrderedDict', cd('collections.OrderedDict'), opairs(v), []]
    if t is collections.deque:
        return ['std', 'deque', cd('collections.deque'), [mt(x) for x in v], [] if v.maxlen is None else [mt(v.maxlen)]]
    if t is collections.Counter:
        try:
            items = v.most_common()
        except TypeError:
            items = list(v.items())
        return ['std', 'Counter', cd('collections.Counter'), pairs(dict(items)), []]
    if t is types.MappingProxyType:
        return ['std', 'mappingproxy', cd('mappingproxy'), pairs(dict(v)), []]
    if t is collections.defaultdict and v.default_factory is None:
        return ['std', 'defaultdict', cd('collections.defaultdict'), pairs(dict(v)), ['none']]
    if t is collections.ChainMap and all(type(m) is dict for m in v.maps):
        return ['std', 'ChainMap', cd('collections.ChainMap'), [mt(m) for m in v.maps], []]
    if t is types.SimpleNamespace:
        return ['std', 'SimpleNamespace', cd('types.SimpleNamespace'), [[cd(k), mt(v.__dict__[k])] for k in sorted(v.__dict__)], []]
    if isinstance(v, tuple) and hasattr(t, '_fields') and t.__module__ not in ('builtins', 'time', 'os', 'sys', 'posix'):
        mod = t.__module__
        name = t.__qualname__ if mod in ('builtins', '__main__') else '%s.%s' % (mod, t.__qualname__)
        return ['std', 'namedtuple', cd(name), [[cd(f), mt(x)] for f, x in zip(t._fields, v)], []]
    if isinstance(v, BaseException) and t.__module__ == 'builtins':
        return ['std', 'exception', cd(t.__qualname__), [mt(a) for a in v.args], []]
    return None


def model_term(v, sort):
    """Value term for Printers.tla: PyTerm value term with the repr text of number leaves attached,
    comment()/trailing_comment() wrappers as ['cm'|'tcm', text, term], registered user types as ['call', ...]."""
    t = type(v)
    PPm = common.pp_module('prettyprinter.prettyprinter')
    if t is PPm._CommentedValue:
        return ['cm', pyterm.codes(v.comment), model_term(v.value, sort)]
    if t is PPm._TrailingCommentedValue:
        return ['tcm', pyterm.codes(v.comment), model_term(v.value, sort)]
    if t in SUB_TYPES:
        qual, kind = SUB_TYPES[t]
        base = {'list': list, 'tuple': tuple, 'set': set, 'frozenset': frozenset, 'dict': dict, 'str': str,
                'bytes': bytes, 'int': int, 'float': float}[kind]
        if kind in ('int', 'float'):
            inner = base.__new__(base, v)
        elif kind in ('str', 'bytes'):
            inner = base.__getitem__(v, slice(None))
        elif kind == 'dict':
            inner = dict(dict.items(v))
        else:
            inner = base(v)
        return ['sub', pyterm.codes(qual), model_term(inner, sort)]
    std = std_term(v, sort)
    if std is not None:
        return std
    if t in CALL_TYPES:
        name, args, kws = CALL_TYPES[t](v)
        return ['call', pyterm.codes(name), [model_term(a, sort) for a in args],
                [[pyterm.codes(k), model_term(x, sort)] for k, x in kws]]
    if t is int:
        return ['int', str(v), pyterm.codes(int.__repr__(v))]
    if t is float:
        return ['float', repr(v), pyterm.codes(float.__repr__(v))]
    if t in (list, tuple, set, frozenset):
        return [t.__name__, [model_term(x, sort) for x in v]]
    if t is dict:
        keys = list(v.keys())
        if sort:
            try:
                keys = sorted(keys)      # unsortable keys: the fallback order depends on object ids
            except TypeError:
                return ['dictany', []]
        return ['dict', [[model_term(k, sort), model_term(v[k], sort)] for k in keys]]
    return pyterm.value_term(v)


def printers_binding(chk, vals, msls=(1000,), name='printers', per_value=None):
    """spec -> code binding of the concrete pipeline model: Printers.tla + LayoutImpl.tla predict
    the exact text of pformat (DRIFT when they do not; values outside the model are skipped)."""
    q = chk.tier == 'quick'
    rng = chk.rng
    cases = []
    meta = {}
    def small(v, budget=[0]):
        # the model is a functional program run by TLC: keep the documents it has to lay out small
        n = [0]

        def walk(x):
            n[0] += 1
            if n[0] > 120:
                return
            if isinstance(x, (list, tuple, set, frozenset)):
                for y in x:
                    walk(y)
            elif isinstance(x, dict):
                for k, y in x.items():
                    walk(k)
                    walk(y)
        walk(v)
        return n[0] <= 120
    vals = [v for v in vals if small(v)]
    pool = vals if len(vals) < (1500 if q else 20000) else rng.sample(vals, 1500 if q else 20000)
    for v in pool:
        for _ in range(per_value or (2 if q else 4)):
            w = rng.choice([1, 5, 10, 20, 30, 40, 60, 79, 120])
            cfg = {'width': w, 'ribbon_width': rng.choice([1, max(1, w // 2), w, 200]), 'indent': rng.choice([1, 2, 4, 8]),
                   'sort_dict_keys': rng.random() < 0.3, 'depth': rng.choice([None, None, None, 0, 1, 2]),
                   'max_seq_len': rng.choice(msls)}
            try:
                with warnings.catch_warnings():
                    warnings.simplefilter('ignore')
                    with common.time_limit(20):
                        out = P.pformat(v, **cfg)
            except (Exception, common.Timeout):
                continue
            try:
                mterm = model_term(v, cfg['sort_dict_keys'])
            except (ValueError, TypeError):
                continue        # a value the model has no term for
            cid = len(cases) + 1
            cases.append({'id': cid, 'val': mterm, 'indent': cfg['indent'], 'width': w,
                          'depth': -1 if cfg['depth'] is None else cfg['depth'], 'ribbon': cfg['ribbon_width'],
                          'msl': cfg['max_seq_len'], 'text': pyterm.codes(out)})
            meta[cid] = {'value': repr(v)[:200], 'config': cfg, 'output': out[:300]}
    v, st = common.tlc_batch('PrintersTrace', CFG, cases, os.path.join(chk.workdir, name), tags=('MODEL', 'SKIP'),
                             min_per_shard=200, heap='3g')
    chk.add_model(st)
    nm = ns = nd = 0
    for c in cases:
        if c['id'] in v['MODEL']:
            nm += 1
        elif c['id'] in v['SKIP']:
            ns += 1
        else:
            nd += 1
            chk.drifted('Printers.tla + LayoutImpl.tla predict a different text for %r' % (meta[c['id']],))
    chk.cov[name + '_model'] = {'predicted_exactly': nm, 'outside_model': ns, 'drift': nd}
    chk.stage('tlc.predict Printers+LayoutImpl (%s)' % name, cases=len(cases), predicted_exactly=nm, outside_model=ns, drift=nd,
              states=st['distinct'], wall=round(st['wall'], 1))


def eval_sorted(v):
    """The value with every dict re-ordered the way sort_dict_keys prints it (when keys are comparable)."""
    if type(v) is dict:
        keys = list(v.keys())
        try:
            keys = sorted(keys)
        except TypeError:
            pass
        return {k: eval_sorted(v[k]) for k in keys}
    if type(v) is list:
        return [eval_sorted(x) for x in v]
    if type(v) is tuple:
        return tuple(eval_sorted(x) for x in v)
    return v


# ---------------------------------------------------------------------------
# C08: subclasses of built-in types keep their class

def c08_base_values(kind, rng, q):
    if kind == 'list':
        return [[], [1], [1, 'a'], ['word ' * 8, 2], list(range(30))]
    if kind == 'tuple':
        return [(), (1,), (1, 'a'), ('x' * 40, None)]
    if kind == 'set':
        return [set(), {1}, {1, 'a'}]
    if kind == 'frozenset':
        return [frozenset(), frozenset([1]), frozenset(['b', 2])]
    if kind == 'dict':
        return [{}, {'a': 1}, {'a': 1, 'b': [1, 2], 'c': 'x' * 30}]
    if kind == 'str':
        return ['', 'a', "it's", 'word ' * 12, 'x' * 60, 'new\nline "q"']
    if kind == 'bytes':
        return [b'', b'a', b'bytes and more bytes ' * 3, b'\xff\x00']
    if kind == 'int':
        return [0, -1, 7, 2 ** 70]
    if kind == 'float':
        return [0.0, -0.0, 1.5, float('inf'), float('nan'), 1e300]
    raise ValueError(kind)


class C08Box:
    def __init__(self, v):
        self.v = v


@P.register_pretty(C08Box)
def _pretty_c08box(b, ctx):
    return P.pretty_call(ctx, C08Box, b.v)


ENUM_FORM = 'enum-mixin-converting-form'


def enum_converting_forms(chk, S):
    """The recorded deviation for Enum mix-ins: members whose printed call relies on the base constructor converting
    its argument. Anything else that goes wrong with them (not a call of the class at all, a warning) is a violation."""
    kf = chk.match_finding('C08.roundtrip', ENUM_FORM)
    for m in S.CONVERTING_FORM_MEMBERS:
        desc = {'member': '%s.%s' % (type(m).__name__, m.name), 'value': repr(m.value)}
        chk.cov['evaluations'] += 1
        try:
            with warnings.catch_warnings(record=True) as wl:
                warnings.simplefilter('always')
                out = P.pformat(m)
        except Exception as e:  # noqa
            chk.violation('C08.raises', 'printing the Enum mix-in member %r raised %r' % (desc, e), desc)
            continue
        desc['output'] = out
        name = 'verif_subs.' + type(m).__name__
        try:
            back = eval(out, {'verif_subs': S})
            ok = back is m
        except Exception as e:  # noqa
            ok = False
            desc['eval_error'] = repr(e)[:200]
        if ok:
            continue                        # prints in a form that evaluates: nothing to report
        if out.startswith(name + '(') and not any('raised an exception' in str(w.message) for w in wl) and kf:
            chk.known(kf)
        else:
            chk.violation('C08.roundtrip', 'the Enum mix-in member %r is not printed as a call of its class: %r' % (desc, out), desc)


def short_lived_subclasses(chk):
    """Subclasses that are defined, printed and dropped (collected), round after round: an instance is printed as a call of
    ITS class whatever classes lived - perhaps at the same address - before."""
    import gc
    import types
    q = chk.tier == 'quick'
    samples = {str: ['some words here', ''], bytes: [b'bytes here', b''], list: [[1, 2]], tuple: [(1, 'a')], set: [{1}],
               frozenset: [frozenset([2])], dict: [{'k': 1}], int: [7], float: [1.5]}
    n = 0
    for rnd in range(25 if q else 300):
        ns = types.SimpleNamespace()
        classes = []
        for base, vals in samples.items():
            body = {'__module__': 'ephemeral'}
            if rnd % 2:
                body['__repr__'] = lambda self: 'custom repr'
            cls = type('R%d_%s' % (rnd, base.__name__), (base,), body)
            setattr(ns, cls.__name__, cls)
            classes.append((cls, base, vals))
        for cls, base, vals in classes:
            for b in vals:
                inst = cls(b)
                for w in (79, 12):
                    n += 1
                    desc = {'class': 'ephemeral.' + cls.__name__, 'base_value': repr(b), 'round': rnd, 'width': w}
                    try:
                        with warnings.catch_warnings():
                            warnings.simplefilter('ignore')
                            out = P.pformat([inst], width=w)
                        back = eval(out, {'ephemeral': ns, '__builtins__': {}})
                        ok = (type(back) is list and len(back) == 1 and type(back[0]) is cls and base(back[0]) == base(inst))
                        err = None
                    except Exception as e:  # noqa
                        ok, err, out = False, repr(e), locals().get('out', '')
                    if not ok:
                        chk.violation('C08.roundtrip', 'an instance of the short-lived subclass %s (round %d) printed as %r does not '
                                      'evaluate to an equal instance of that class%s' % (desc['class'], rnd, out, ': ' + err if err else ''),
                                      dict(desc, output=out))
                    chk.nontrivial(('ephemeral', cls.__name__, repr(b), w))
        del classes, ns, cls, inst
        gc.collect()
    chk.cov['evaluations'] += n
    chk.stage('short-lived-subclasses', prints=n)


def check_c08(chk, args):
    import verif_subs as S
    q = chk.tier == 'quick'
    rng = chk.rng
    short_lived_subclasses(chk)
    subs = sorted(set(S.ALL.values()))
    env = {'verif_subs': S}

    def same(back, v):
        return pyterm.typed_equal_sub(back, v, S.ALL)

    contexts = {
        'top': (lambda x: x, lambda t: t),
        'list-element': (lambda x: [0, x], lambda t: ['list', [['int', '0'], t]]),
        'dict-value': (lambda x: {'k': x}, lambda t: ['dict', [[['str', pyterm.codes('k')], t]]]),
        'sole-element': (lambda x: (x,), lambda t: ['tuple', [t]]),
    }

    bound = []

    def jobs():
        vi = 0
        for cls, (qual, kind) in S.ALL.items():
            if cls is S.IE:
                insts = [S.IE.A, S.IE.B]
            elif cls in S.ENUM_MIXINS:
                insts = list(cls)
            else:
                insts = []
                for b in c08_base_values(kind, rng, q):
                    try:
                        insts.append(cls(b))
                    except Exception:
                        pass
            for inst in insts:
                for cname, (wrap, wrapt) in contexts.items():
                    ctxs = [(cname, wrap, wrapt)]
                    if cname == 'top' and kind in ('tuple', 'frozenset', 'str', 'bytes', 'int', 'float'):
                        ctxs.append(('dict-key', lambda x: {x: 1}, lambda t: ['dict', [[t, ['int', '1']]]]))
                    for cn, w_, wt_ in ctxs:
                        vi += 1
                        val = w_(inst)
                        if cls is not S.IE and cls not in S.ENUM_MIXINS:
                            bound.append(val)
                        expected = wt_(pyterm.value_term(inst, subs=S.ALL))
                        widths = [1, 5, 10, 20, 30, 40, 50, 70, 79] if q else list(range(1, 71)) + [79, 200]
                        for w in widths:
                            cfg = {'width': w, 'ribbon_width': rng.choice([w, max(1, w // 2), 200]),
                                   'indent': rng.choice([2, 4])}
                            yield (vi, val, cfg, expected, (lambda back, val=val: same(back, val)))
    drive(chk, 'C08', jobs(), subs=subs, env=env, syntactic=True, rule=(
        'for each built-in base (list, tuple, set, frozenset, dict, str, bytes, int, float): subclasses plain / '
        'overriding __repr__ / __str__ / both, and an IntEnum; x base values (empty, short, long enough to split, '
        'special floats) x contexts (top, list element, dict value, dict key, sole tuple element) x widths; the parsed '
        'output must denote <<"sub", qualified name, base value>> (PyTerm!Denote); distinct = (instance, context, output)'))
    # spec -> code: Printers.tla predicts the exact text of subclass instances (wrapper call, hugging, empty and
    # placeholder forms, the forced plain strategy of split str / bytes subclasses) - DRIFT only
    SUB_TYPES.update({c: qk for c, qk in S.ALL.items() if c is not S.IE and c not in S.ENUM_MIXINS})
    enum_converting_forms(chk, S)
    printers_binding(chk, bound, name='subclasses', per_value=1 if q else 3)
    chk.assumptions += ['cross-oracle: eval with the generated module in scope, type(result) is the subclass and the '
                        'underlying base values are typed-equal']
