"""C03: width, ribbon and indent change only the layout, never the content."""
import os
import warnings

import common
import pyterm
import prettyprinter as P

CFG = "INIT Init\nNEXT Next\nINVARIANT Report\nCHECK_DEADLOCK FALSE\n"


def corpus(chk):
    import values
    import verif_subs as S
    from checks import stdlib as ST
    from checks import comments as CM
    from checks import calls as CL
    rng = chk.rng
    q = chk.tier == 'quick'
    out = []
    for i in range(60 if q else 1500):
        out.append(('builtin', values.random_value(rng, depth=rng.choice([1, 2, 3, 4]))))
    # strings with both kinds of quote, backslashes and control characters, long enough to be split:
    # every split piece is escaped separately, under the quote chosen for the whole value
    from checks import strings as SS
    alpha = [1, 2, 3, 4, 5, 6, 7, 8]
    import itertools
    triples = [t for n in (1, 2, 3) for t in itertools.product(alpha, repeat=n)]
    for t in (rng.sample(triples, 60) if q else triples):
        for is_bytes in (False, True):
            mid = SS.realize(t, is_bytes)
            pre = SS.realize([1, 1, 1, 2, 5, 1, 5, 2], is_bytes)      # aaa "a"
            post = SS.realize([2, 1, 1, 1, 1], is_bytes)
            s_ = pre * 2 + mid + post * 5
            out.append(('adversarial-string', [s_]))
            out.append(('adversarial-string', {'key': s_}))
    for kind, obj in ST.instances(rng, q)[:: 3 if q else 1]:
        out.append(('stdlib:' + kind, [obj, {'k': obj}]))
    for cls, (qual, kind) in list(S.ALL.items())[:: 2 if q else 1]:
        from checks.values_checks import c08_base_values
        for b in c08_base_values(kind, rng, q)[:3]:
            try:
                out.append(('subclass', [cls(b)]))
            except Exception:
                pass
    for rep in range(4 if q else 60):
        for sk in CM.skeletons():
            b = CM.Builder(rng, 0.6)
            try:
                plain, commented = b.build(sk)
            except ValueError:
                continue
            out.append(('commented', commented))
    for rep in range(30 if q else 600):
        na = rng.choice([0, 1, 2, 3])
        args = [rng.choice(CL.ARGS) for _ in range(na)]
        kw = [(n, rng.choice(CL.ARGS)) for n in rng.sample(['a', 'bb', 'key'], rng.choice([0, 1, 2]))]
        out.append(('pretty_call', CL.Carrier(CL.K, args, kw, True, 'pairs')))
    # the same long string at positions whose start column coincides under different indent settings (depth 2 at
    # indent 2 = depth 1 at indent 4), and long str / bytes subclass instances at the top level (column 0 under every
    # indent): anything remembered about a string between calls must not carry the indent setting along
    long_s = 'lorem ipsum dolor sit amet ' * 6
    long_b = b'lorem ipsum dolor sit amet ' * 6
    for s_ in (long_s, long_b):
        out.append(('coinciding-columns', [[s_, 'x'], s_, 'y']))
        out.append(('coinciding-columns', {'k': [s_, 1], 'j': s_, 'i': [[s_]]}))
        out.append(('coinciding-columns', ([[[s_, 0]], (s_, 1)], s_, 2)))
    for cls, (qual, kind) in S.ALL.items():
        if kind in ('str', 'bytes') and cls is not getattr(S, 'IE', None):
            try:
                out.append(('subclass-top', cls(long_s if kind == 'str' else long_b)))
                out.append(('subclass-top', [cls(long_s if kind == 'str' else long_b), 1]))
            except Exception:
                pass
    # commented values whose content depends on the OTHER settings (key order, truncation, depth): the variant the
    # layout picks (comment at the end of the line / on a line of its own) must not change that content
    c = P.comment
    note = 'a note that is long enough not to fit next to the value'
    for mk in (lambda: {'k': c({'b': 1, 'a': 2}, 'note'), 'j': 0},
               lambda: {'k': c({'b': 1, 'a': {'z': 0, 'y': [3, 2, 1]}}, note)},
               lambda: [c({'b': 1, 'a': 2}, 'note'), {'v': c([{'q': 1, 'p': 2}, (4, 5, 6, 7)], note)}],
               lambda: CL.Carrier(CL.K, [c({'b': 1, 'a': 2}, 'arg')], [('kw', c({'d': [1, 2, 3], 'c': 0}, 'kwarg'))], True, 'pairs'),
               lambda: {'outer': c({'inner': c({'n': 1, 'm': [1, 2, 3, 4]}, 'deep'), 'a': 0}, 'top')},
               lambda: P.trailing_comment({'b': c([3, 2, 1], 'v'), 'a': 1}, 'tail')):
        for _ in range(2 if q else 6):
            out.append(('commented-settings', mk()))
    return out


OTHER_SETTINGS = [{}, {}, {'sort_dict_keys': True}, {'max_seq_len': 2}, {'depth': 2}, {'sort_dict_keys': True, 'max_seq_len': 3},
                  {'depth': 3, 'sort_dict_keys': True}]


def check_c03(chk, args):
    q = chk.tier == 'quick'
    rng = chk.rng
    vals = corpus(chk)
    cases = []
    meta = {}
    nprints = 0
    for vi, (kind, v) in enumerate(vals):
        # the settings that are NOT layout settings are held fixed for the value
        other = OTHER_SETTINGS[vi % len(OTHER_SETTINGS)] if kind != 'commented-settings' else \
            OTHER_SETTINGS[2 + vi % (len(OTHER_SETTINGS) - 2)]
        try:
            with warnings.catch_warnings():
                warnings.simplefilter('ignore')
                with common.time_limit(20):
                    ref = P.pformat(v, width=79, ribbon_width=71, indent=4, **other)
            ref_term = pyterm.parse_output(ref)
        except (Exception, common.Timeout, pyterm.ParseError):
            continue    # other properties judge whether the value prints at all
        seen = {ref}
        cfgs = []
        widths = list(range(1, 201)) if not q else sorted(set(rng.sample(range(1, 201), 10) + [1, 2, 3, 200]))
        if not q and vi % 4:
            widths = sorted(set(rng.sample(range(1, 201), 25) + [1, 2, 3, 200]))
        for w in widths:
            cfgs.append((w, rng.choice([1, 10, max(1, w // 2), w, 200]), rng.choice([1, 2, 3, 4, 5, 6, 7, 8])))
        if kind in ('coinciding-columns', 'subclass-top', 'subclass', 'adversarial-string') or vi % 5 == 0:
            # the same width and ribbon under every indent, one after the other
            for (w, rw) in ((79, 71), (40, 40), (30, 200)):
                for ind in (4, 2, 8, 1, 3, 6, 5, 7):
                    cfgs.append((w, rw, ind))
        for (w, rw, ind) in cfgs:
            nprints += 1
            desc = {'kind': kind, 'value': repr(v)[:200], 'config': {'width': w, 'ribbon_width': rw, 'indent': ind},
                    'fixed_settings': other, 'reference': ref[:300]}
            try:
                with warnings.catch_warnings():
                    warnings.simplefilter('ignore')
                    with common.time_limit(20):
                        out = P.pformat(v, width=w, ribbon_width=rw, indent=ind, **other)
            except (Exception, common.Timeout) as e:  # noqa
                chk.violation('C03.raises', 'pformat raised %r at %r although it prints at the reference configuration: %.200r'
                              % (e, desc['config'], v), desc)
                continue
            key = (out, ind)
            if key in seen:
                continue
            seen.add(key)
            desc['output'] = out[:600]
            try:
                obs = pyterm.parse_output(out)
            except pyterm.ParseError as e:
                chk.violation('C03.syntax', 'output at %r is not an expression (%s) although the reference output is: %r'
                              % (desc['config'], e, desc), desc)
                continue
            lead = [len(l) - len(l.lstrip(' ')) for l in out.split('\n') if l.strip()]
            cid = len(cases) + 1
            cases.append({'id': cid, 'mode': 'layout', 'obs': obs, 'val': ref_term, 'subs': [], 'N': ind, 'notices': lead})
            meta[cid] = desc
            chk.nontrivial((vi, out))
    can = []
    for c in cases[:: max(1, len(cases) // 15)][:15]:
        if c['N'] > 1:
            k = dict(c)
            k['id'] = len(cases) + len(can) + 1
            k['notices'] = list(c['notices']) + [c['N'] + 1]
            can.append(k)
    v, st = common.tlc_batch('TermTrace', CFG, cases + can, os.path.join(chk.workdir, 'terms'), tags=('ACCEPT',),
                             min_per_shard=300, heap='2g')
    chk.add_model(st)
    acc = v['ACCEPT']
    chk.cov['canaries_total'] = len(can)
    for k in can:
        if k['id'] in acc:
            chk.machinery_error('canary accepted (a line indented by indent + 1)')
        else:
            chk.cov['canaries_rejected'] += 1
    nrej = 0
    for c in cases:
        if c['id'] not in acc:
            nrej += 1
            d = meta[c['id']]
            clause = 'C03.content' if c['obs'] != c['val'] else 'C03.indent'
            chk.violation(clause, ('the syntax tree differs from the one printed at width=79, ribbon_width=71, indent=4'
                                   if clause == 'C03.content' else
                                   'a line is not indented by a multiple of indent=%d' % c['N']) + ': %r' % (d,), d)
    chk.cov['evaluations'] = nprints
    chk.cov['traces_validated_against_impl'] = len(cases)
    chk.cov['rule'] = ('corpora of built-in values, standard-library instances, subclass instances, commented values and '
                       'pretty_call user types x widths 1..200 (all in the thorough tier for every fourth value, sampled '
                       'otherwise) x ribbon x indent 1..8; outputs de-duplicated, every distinct one parsed and compared by '
                       'TLC with the reference syntax tree, plus the indent clause; distinct by (value, output)')
    for c in cases[:: max(1, len(cases) // 4)][:4]:
        chk.sample(meta[c['id']])
    chk.stage('tlc.validate', prints=nprints, distinct=len(cases), rejected=nrej, states=st['distinct'])
