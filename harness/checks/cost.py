"""C12: printing terminates and its work grows polynomially with the input.

Design level (TLC): ranking functions of the three loops of the pipeline
  LayoutImplMC!Decreasing (best_layout), StrSplit!Progress (str_to_lines), WalkMC (traversal).
Code level: executed source lines inside the package (sys.monitoring LINE events), counted for
parametrised input families at m, 2m, 4m, 8m under a hard step budget."""
import os
import sys
import warnings

import common
import prettyprinter as P

PKG_DIR = os.path.dirname(P.__file__)
TOOL = 3


class StepBudget(BaseException):
    pass


class Counter:
    def __init__(self):
        self.n = 0
        self.budget = None

    def __enter__(self):
        mon = sys.monitoring
        mon.use_tool_id(TOOL, 'verif-c12')
        me = self

        def on_line(code, line):
            if code.co_filename.startswith(PKG_DIR):
                me.n += 1
                if me.budget is not None and me.n > me.budget:
                    raise StepBudget()
                return None
            return mon.DISABLE
        mon.register_callback(TOOL, mon.events.LINE, on_line)
        mon.set_events(TOOL, mon.events.LINE)
        return self

    def __exit__(self, *a):
        mon = sys.monitoring
        mon.set_events(TOOL, 0)
        mon.register_callback(TOOL, mon.events.LINE, None)
        mon.free_tool_id(TOOL)


def steps(value, budget, **cfg):
    with Counter() as c:
        c.budget = budget
        try:
            with warnings.catch_warnings():
                warnings.simplefilter('ignore')
                P.pformat(value, **cfg)
        except StepBudget:
            return None
    return c.n


class H:
    def __init__(self, *a):
        self.a = a


@P.register_pretty(H)
def pretty_h(v, ctx):
    return P.pretty_call(ctx, H, *v.a)


def nest(n, wrap, leaf=1):
    v = leaf
    for i in range(n):
        v = wrap(v, i)
    return v


def families(rng):
    c = P.comment
    F = {
        'nested-lists': lambda n: nest(n, lambda v, i: [v]),
        'nested-lists-wide': lambda n: nest(n, lambda v, i: [i, v, 'x']),
        'nested-dicts': lambda n: nest(n, lambda v, i: {'k': v}),
        'nested-dicts-3': lambda n: nest(n, lambda v, i: {'a': i, 'k': v, 'z': None}),
        'nested-tuples': lambda n: nest(n, lambda v, i: (v,)),
        'nested-calls': lambda n: nest(n, lambda v, i: H(v)),
        'nested-calls-2args': lambda n: nest(n, lambda v, i: H(i, v)),
        'flat-list': lambda n: list(range(n * 4)),
        'flat-list-of-strings': lambda n: ['item %d' % i for i in range(n * 4)],
        'flat-dict': lambda n: {i: str(i) for i in range(n * 4)},
        'long-string-words': lambda n: 'word ' * (n * 10),
        'long-string-solid': lambda n: 'x' * (n * 50),
        'long-bytes': lambda n: b'\x00\xff ' * (n * 10),
        'deep-string': lambda n: nest(n, lambda v, i: [v], leaf='some words in a string ' * 4),
        'deep-string-in-dicts': lambda n: nest(n, lambda v, i: {'key': v}, leaf='some words in a string ' * 4),
        'comments-in-lists': lambda n: nest(n, lambda v, i: [c(v, 'comment %d' % i)]),
        'comments-trailing-lists': lambda n: nest(n, lambda v, i: P.trailing_comment([v], 'tc %d' % i)),
        'comments-on-dict-values': lambda n: nest(n, lambda v, i: {'k': c(v, 'comment %d' % i)}),
        'comments-on-dict-keys': lambda n: nest(n, lambda v, i: {c('k%d' % i, 'kc'): v}),
        'comments-on-call-args': lambda n: nest(n, lambda v, i: H(c(v, 'arg %d' % i))),
        'comments-mixed': lambda n: nest(n, lambda v, i: [c({'k': c(v, 'v%d' % i)}, 'd%d' % i)]),
    }
    def ring(n, comment_text):
        ds = [{'i': i} for i in range(n)]
        for i, d in enumerate(ds):
            d['next'] = c(ds[(i + 1) % n], comment_text % i) if comment_text else ds[(i + 1) % n]
        return ds[0]

    def list_ring(n):
        ls = [[i] for i in range(n)]
        for i, l in enumerate(ls):
            l.append(c(ls[(i + 1) % n], 'link %d' % i))
        return ls[0]
    # finite but cyclic values: "pformat terminates on every finite value"
    F['cyclic-dict-ring'] = lambda n: ring(n, None)
    F['cyclic-dict-ring-commented'] = lambda n: ring(n, 'c%d')
    F['cyclic-dict-ring-long-comments'] = lambda n: ring(n, 'a rather long comment that will not fit at the end of the line, a rather long comment %d')
    F['cyclic-list-ring-commented'] = lambda n: list_ring(n)
    # nesting through every bundled printer and through subclasses of the base types: "nested calls ... wrapper recipes"
    import collections, functools, types
    class MyDict(dict): pass
    class MyList(list): pass
    class MyTuple(tuple): pass
    class MySet(set): pass
    class MyFrozen(frozenset): pass
    class MyOD(collections.OrderedDict): pass
    NT = collections.namedtuple('NT', ['left', 'right'])
    class HK0:
        def __init__(self, **k):
            self.k = k
    P.register_pretty(HK0)(lambda v, ctx: P.pretty_call(ctx, HK0, **v.k))
    F['nested-dict-subclass'] = lambda n: nest(n, lambda v, i: MyDict({'k': v}))
    F['nested-dict-subclass-2keys'] = lambda n: nest(n, lambda v, i: MyDict({'a': v, 'b': i}))
    F['nested-list-subclass'] = lambda n: nest(n, lambda v, i: MyList([v]))
    F['nested-tuple-subclass'] = lambda n: nest(n, lambda v, i: MyTuple((v,)))
    F['nested-frozensets'] = lambda n: nest(n, lambda v, i: frozenset([v]))
    F['nested-frozenset-subclass'] = lambda n: nest(n, lambda v, i: MyFrozen([v]))
    F['set-subclass-of-nested-frozensets'] = lambda n: MySet([nest(n, lambda v, i: frozenset([v, i]))])
    F['nested-ordereddict'] = lambda n: nest(n, lambda v, i: collections.OrderedDict([('k', v)]))
    F['nested-ordereddict-subclass'] = lambda n: nest(n, lambda v, i: MyOD([('k', v)]))
    F['nested-defaultdict'] = lambda n: nest(n, lambda v, i: collections.defaultdict(list, {'k': v}))
    F['nested-counter'] = lambda n: nest(n, lambda v, i: collections.Counter({'k': v}))
    F['nested-chainmap'] = lambda n: nest(n, lambda v, i: collections.ChainMap({'k': v}, {'j': i}))
    F['nested-deque'] = lambda n: nest(n, lambda v, i: collections.deque([v], maxlen=3))
    F['nested-namespace'] = lambda n: nest(n, lambda v, i: types.SimpleNamespace(child=v))
    F['nested-namedtuple'] = lambda n: nest(n, lambda v, i: NT(i, v))
    F['nested-partial'] = lambda n: nest(n, lambda v, i: functools.partial(H, v, key=i))
    F['nested-mappingproxy'] = lambda n: nest(n, lambda v, i: types.MappingProxyType({'k': v}))
    F['nested-exception'] = lambda n: nest(n, lambda v, i: ValueError('msg', v))
    F['nested-tuple-as-dict-key'] = lambda n: {nest(n, lambda v, i: (v, i)): 'x'}
    # a GROUP (something the layout may put flat or broken) followed on the same line by a nested value that has to
    # break: keys that are tuples / frozensets / dates / calls / namedtuples, a tuple before the nested argument
    import datetime as _dt
    F['nested-dicts-tuple-keys'] = lambda n: nest(n, lambda v, i: {(i, 'k'): v})
    F['nested-dicts-tuple-keys-2'] = lambda n: nest(n, lambda v, i: {(i, 'a'): i, (i, 'b'): v})
    F['nested-dicts-frozenset-keys'] = lambda n: nest(n, lambda v, i: {frozenset([i, 'k']): v})
    F['nested-dicts-date-keys'] = lambda n: nest(n, lambda v, i: {_dt.date(2000, 1, 1 + i % 28): v})
    F['nested-dicts-datetime-keys'] = lambda n: nest(n, lambda v, i: {_dt.datetime(2000, 1, 1, i % 24): v})
    F['nested-dicts-call-keys'] = lambda n: nest(n, lambda v, i: {H(i, 'k'): v})
    F['nested-dicts-namedtuple-keys'] = lambda n: nest(n, lambda v, i: {NT(i, 'k'): v})
    F['nested-dicts-nested-tuple-keys'] = lambda n: nest(n, lambda v, i: {((i, 'a'), ('b',)): v})
    F['nested-ordereddict-tuple-keys'] = lambda n: nest(n, lambda v, i: collections.OrderedDict([((i, 'k'), v)]))
    F['nested-lists-after-tuple'] = lambda n: nest(n, lambda v, i: [(i, 'k'), v])
    F['nested-calls-after-tuple'] = lambda n: nest(n, lambda v, i: H((i, 'k'), v))
    F['nested-kwargs-after-tuple'] = lambda n: nest(n, lambda v, i: HK0(a=(i, 'k'), b=v))
    # comments x every wrapper: the child carries a comment / the container a trailing comment, at every level
    class HK:
        def __init__(self, **k):
            self.k = k
    P.register_pretty(HK)(lambda v, ctx: P.pretty_call(ctx, HK, **v.k))
    tcm = P.trailing_comment
    combos = {
        'list': lambda x, i: [x], 'list2': lambda x, i: [i, x], 'tuple': lambda x, i: (x,), 'dict': lambda x, i: {'k': x},
        'call-sole-arg': lambda x, i: H(x), 'call-sole-list': lambda x, i: H([x]), 'call-sole-dict': lambda x, i: H({'k': x}), 'call-sole-tuple': lambda x, i: H((x, i)),
        'call-2args': lambda x, i: H(i, x), 'call-kwarg': lambda x, i: HK(key=x), 'call-2kwargs': lambda x, i: HK(a=i, b=x),
        'dict-subclass': lambda x, i: MyDict({'k': x}), 'list-subclass': lambda x, i: MyList([x]),
        'ordereddict': lambda x, i: collections.OrderedDict([('k', x)]), 'deque': lambda x, i: collections.deque([x]),
        'namespace': lambda x, i: types.SimpleNamespace(child=x), 'namedtuple': lambda x, i: NT(i, x),
        'defaultdict': lambda x, i: collections.defaultdict(list, {'k': x}), 'chainmap': lambda x, i: collections.ChainMap({'k': x}),
        'partial': lambda x, i: functools.partial(H, x, key=i), 'mappingproxy': lambda x, i: types.MappingProxyType({'k': x}),
    }
    for cname, wrap in combos.items():
        F['commented-child-in-%s' % cname] = (lambda n, wrap=wrap: nest(n, lambda v, i: wrap(c(v, 'note %d' % i), i)))
        # a commented CONTAINER as the sole / only member of the wrapper
        F['commented-container-in-%s' % cname] = (lambda n, wrap=wrap: nest(n, lambda v, i: wrap(c([v, i], '%d item(s)' % i), i)))
        F['trailing-container-in-%s' % cname] = (lambda n, wrap=wrap: nest(n, lambda v, i: wrap(tcm([v], 'tail %d' % i), i)))
        # the wrapper ITSELF carries a trailing comment / a comment at every level (printers that take trailing_comment
        # and printers that do not)
        F['trailing-on-%s' % cname] = (lambda n, wrap=wrap: nest(n, lambda v, i: tcm(wrap(v, i), 'tail %d' % i)))
        F['comment-on-%s' % cname] = (lambda n, wrap=wrap: nest(n, lambda v, i: c(wrap(v, i), 'note %d' % i)))
    # several comment wrappers stacked on ONE value (the innermost of each kind wins)
    F['stacked-trailing-comments'] = lambda n: nest(n, lambda v, i: tcm(v, 't%d' % i), leaf=[1, 2])
    F['stacked-comments'] = lambda n: nest(n, lambda v, i: c(v, 'c%d' % i), leaf=[1, 2])
    F['stacked-alternating-wrappers'] = lambda n: nest(n, lambda v, i: (tcm if i % 2 else c)(v, 'w%d' % i), leaf={'k': [1]})
    F['stacked-wrappers-in-list'] = lambda n: [nest(n, lambda v, i: (c if i % 3 else tcm)(v, 'w%d' % i), leaf=(1, 2)), 3]
    # seeded random wrapper recipes
    wrappers = [lambda v, i: [v], lambda v, i: {'k': v}, lambda v, i: (v, i), lambda v, i: H(v),
                lambda v, i: [c(v, 'c')], lambda v, i: {'k': c(v, 'c')}, lambda v, i: {'a': 1, 'b': v, 'c': 3},
                lambda v, i: [v, 'some string ' * 3], lambda v, i: MyDict({'k': v}), lambda v, i: MyList([v, i]),
                lambda v, i: collections.OrderedDict([('k', v)]), lambda v, i: NT(v, i),
                lambda v, i: types.SimpleNamespace(a=v), lambda v, i: collections.deque([v])]
    for r in range(10):
        recipe = [rng.choice(wrappers) for _ in range(5)]
        F['random-recipe-%d' % r] = (lambda n, recipe=recipe: nest(n, lambda v, i: recipe[i % len(recipe)](v, i)))
    return F


def design_level(chk):
    """Ranking functions checked by TLC on bounded universes."""
    from checks import layout as L
    from checks import strings as S
    q = chk.tier == 'quick'
    u = L.build_universe(chk, classic=False, quick_sizes=3, thorough_sizes=4, n_random=100 if q else 1500,
                         n_big=0, flags={'strict': True})
    r = L.run_mc(chk, u, 4000 if q else 60000)
    chk.cov['layout_ranking_states'] = r.distinct
    wd = os.path.join(chk.workdir, 'strsplit')
    r2 = common.run_tlc('StrSplit', S.MC_CFG % (3, 5, '1,2,3,4,5,6,7,8'), wd, workers=common.NCPU, heap='6g')
    chk.add_tlc(r2)
    if r2.invariant_violated or 'is violated' in r2.out:
        chk.violation('C12.splitter-ranking', 'StrSplit!Progress (termination variant of str_to_lines) fails\n'
                      + '\n'.join(r2.out.splitlines()[-30:]), {})
    elif not r2.ok:
        raise common.MachineryError('StrSplit failed:\n' + '\n'.join(r2.out.splitlines()[-30:]))
    chk.stage('tlc.ranking StrSplit!Progress', states=r2.distinct)


def check_c12(chk, args):
    q = chk.tier == 'quick'
    rng = chk.rng
    design_level(chk)
    F = families(rng)
    sizes = [6, 12, 24, 48] if q else [6, 12, 24, 48, 96]
    old_limit = sys.getrecursionlimit()
    sys.setrecursionlimit(20000)
    rows = []
    try:
        for name, fam in sorted(F.items()):
            prev = None
            for m in sizes:
                if name.startswith(('nested', 'deep', 'comments', 'random', 'cyclic')) and m > 48:
                    continue
                budget = 30_000_000 if prev is None else max(16 * prev, 2_000_000)
                try:
                    v = fam(m)
                except RecursionError:
                    break
                for cfgname, cfg in (('default', {}), ('narrow', {'width': 20})):
                    if cfgname == 'narrow' and (q and m > 12):
                        continue
                    chk.cov['evaluations'] += 1
                    desc = {'family': name, 'size': m, 'config': cfgname}
                    try:
                        with common.time_limit(120):
                            n = steps(v, budget, **cfg)
                    except RecursionError:
                        n = -1
                    except common.Timeout:
                        n = None
                    except Exception as e:  # noqa
                        chk.violation('C12.raises', 'pformat raised %r on family %s size %d' % (e, name, m), desc)
                        continue
                    if n == -1:
                        continue
                    if n is None:
                        chk.violation('C12.budget', 'family %s at size %d (%s) did not finish within %d executed lines '
                                      '(16 x the count at half the size, %r)' % (name, m, cfgname, budget, prev), desc)
                        break
                    if cfgname == 'default':
                        rows.append((name, m, n))
                        if prev is not None and m >= 12:
                            ratio = n / max(prev, 1)
                            desc['steps'] = n
                            desc['steps_at_half'] = prev
                            if ratio > 16:
                                chk.violation('C12.growth', 'family %s: executed lines grow by a factor %.1f from size %d '
                                              '(%d) to size %d (%d); more than 16 per doubling' % (name, ratio, m // 2,
                                                                                                   prev, m, n), desc)
                        prev = n
                        chk.nontrivial((name, m))
                else:
                    continue
                break
    finally:
        sys.setrecursionlimit(old_limit)
    chk.cov['step_counts'] = {'%s@%d' % (a, b): c for a, b, c in rows}
    chk.cov['rule'] = ('parametrised families (nested lists/dicts/tuples/calls, long flat sequences, long strings with and '
                       'without break opportunities, strings nested until no width is left, comments at every level of '
                       'lists / dict values / dict keys / call arguments, seeded random wrapper recipes) at sizes 6, 12, '
                       '24, 48(, 96); the count of executed source lines inside the package must stay within 16 x the '
                       'count at half the size; distinct by (family, size)')
    for r in rows[:: max(1, len(rows) // 6)][:6]:
        chk.sample({'family': r[0], 'size': r[1], 'executed_lines': r[2]})
    chk.assumptions += ['work = LINE events of sys.monitoring inside prettyprinter/*.py, not wall time',
                        'a polynomial of degree <= 4 passes; this is exploration of families, not a proof of a growth law']
    chk.stage('families', families=len(F), measurements=len(rows))
