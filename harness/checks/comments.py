"""C09: comments are inert and preserved (spec/TermTrace.tla mode "comment")."""
import os
import warnings

import common
import pyterm
import prettyprinter as P

CFG = "INIT Init\nNEXT Next\nINVARIANT Report\nCHECK_DEADLOCK FALSE\n"
WORDS = ['w', '#', "'", '"', '(', ']', ',', 'a,b', '\\', 'word', '{x}', '#!', "it's", 'caf\xe9', '\u4e2d\u6587',
         'averyveryveryveryveryveryveryveryveryverylongwordthatcannotbebrokenanywhere', '%s', '{0}', '...and', 'more', 'elements']
SEPS = [' ', '  ', '\t', '\n', '\n\n', ' \n ', ' ', '\n',
        # every other character str.splitlines() / str.split() treat as a separator: to Python's tokenizer a bare
        # carriage return ends the line (and the comment); the rest must at least not glue or drop words
        '\r', '\r\n', '\x0c', '\x0b', '\x1c', '\x1d', '\x1e', '\x85', '\u2028', '\u2029', '\xa0 ', ' \u3000']


class G:
    def __init__(self, *a, **k):
        self.a, self.k = a, k


@P.register_pretty(G)
def pretty_g(v, ctx):
    return P.pretty_call(ctx, G, *v.a, **v.k)


def text(rng):
    r = rng.random()
    if r < 0.05:
        return rng.choice(['\n', ' ', '\n\n', '\t'])
    n = rng.choice([1, 1, 2, 3, 5, 12])
    parts = []
    for i in range(n):
        if i:
            parts.append(rng.choice(SEPS))
        parts.append(rng.choice(WORDS))
    t = ''.join(parts)
    if rng.random() < 0.2:
        t = rng.choice([' ', '\n', '  ']) + t
    if rng.random() < 0.2:
        t = t + rng.choice([' ', '\n', '\t '])
    return t


def skeletons():
    L = 'leaf'
    return [
        L, ['list', L], ['tuple', L], ['list', L, L], ['tuple', L, L], ['dict', (L, L)], ['dict', (L, L), (L, L)],
        ['dict', (L, ['list', L])], ['list', ['list', L]], ['list', L, ['list', L]], ['tuple', ['tuple', L]],
        ['set', L], ['frozenset', L], ['list'], ['tuple'], ['set'], ['dict'], ['call', L], ['call', L, ('kw', L)],
        ['call', ['list', L]], ['list', ['dict', (L, L)]], ['dict', (L, L), (L, L), (L, L)],
        ['list', L, L, L], ['tuple', ['list', L, L]], ['dict', (L, ['tuple', L])],
        # calls whose sole argument is a container (the printers treat a sole argument specially), commented on both levels
        ['call', ['dict', (L, L)]], ['call', ['tuple', L, L]], ['list', ['call', ['list', L, L]]],
        ['dict', (L, ['call', ['dict', (L, L)]])], ['call', ['call', ['list', L]]], ['call', ['list', L], ('kw', ['list', L])],
    ]


class Builder:
    """Builds the plain and the commented variant of a skeleton in lockstep."""

    def __init__(self, rng, density, textfn=None):
        self.rng = rng
        self.textfn = textfn or text
        self.density = density
        self.n = 0
        self.attached = []

    def leaf(self):
        self.n += 1
        return self.rng.choice([self.n, 's%d' % self.n, 'long string value number %d ' % self.n * 3, float(self.n)])

    def annotate(self, plain, container):
        r = self.rng.random()
        v = plain
        if r < self.density:
            t = self.textfn(self.rng)
            if t:
                self.attached.append(t)
                v = P.comment(v, t)
        if container and self.rng.random() < self.density * 0.7:
            t = self.textfn(self.rng)
            if t:
                self.attached.append(t)
                v = P.trailing_comment(v, t)
        return v

    def build(self, sk):
        """returns (plain, commented)"""
        if sk == 'leaf':
            x = self.leaf()
            return x, self.annotate(x, False)
        kind = sk[0]
        if kind == 'dict':
            p, c = {}, {}
            for ksk, vsk in sk[1:]:
                kp = self.leaf()
                while isinstance(kp, float):
                    kp = self.leaf()
                kc = self.annotate(kp, False)
                vp, vc = self.build(vsk)
                p[kp] = vp
                c[kc] = vc
            return p, self.annotate(c, True) if True else c
        if kind == 'call':
            args_p, args_c, kw_p, kw_c = [], [], {}, {}
            for x in sk[1:]:
                if isinstance(x, tuple):
                    vp, vc = self.build(x[1])
                    kw_p[x[0]] = vp
                    kw_c[x[0]] = vc
                else:
                    vp, vc = self.build(x)
                    args_p.append(vp)
                    args_c.append(vc)
            # (the printer of G takes no trailing_comment: only comment() applies to the call itself)
            return G(*args_p, **kw_p), self.annotate(G(*args_c, **kw_c), False)
        items = [self.build(x) for x in sk[1:]]
        ps = [a for a, _ in items]
        cs = [b for _, b in items]
        mk = {'list': list, 'tuple': tuple, 'set': set, 'frozenset': frozenset}[kind]
        try:
            p = mk(ps)
            c = mk(cs)
        except TypeError:
            raise ValueError('unhashable')
        container = kind in ('list', 'tuple', 'set')
        return p, self.annotate(c, container)


ASCII_WORDS = ['w', '#', "'", '"', '(', ']', ',', 'a,b', '\\', 'word', '{x}', '#!', "it's", 'a-much-longer-word-than-the-others',
               '%s', '...and', 'more', 'elements', 'x' * 45]
ASCII_SEPS = [' ', ' ', '  ', '\t', '\n', '\n\n', ' \n ', ' \t ']


def ascii_text(rng):
    """comment texts inside the domain of Printers!CommentDoc (printable ASCII, tab, newline)"""
    if rng.random() < 0.06:
        return rng.choice(['\n', ' ', '\n\n', '\t', ' \n', 'w\n'])
    parts = []
    for i in range(rng.choice([1, 1, 2, 3, 5, 9])):
        if i:
            parts.append(rng.choice(ASCII_SEPS))
        parts.append(rng.choice(ASCII_WORDS))
    t = ''.join(parts)
    if rng.random() < 0.2:
        t = rng.choice([' ', '\n', '  ', '\t']) + t
    if rng.random() < 0.2:
        t = t + rng.choice([' ', '\n', '\t ', '\n\n'])
    return t


MC_CFG = ("CONSTANTS MaxLen = %d\n Widths = {%s}\n Canary = %s\n Shard = %d\n NShards = %d\n"
          "INIT Init\nNEXT Next\nINVARIANT Report\nCHECK_DEADLOCK FALSE\n")


def design_level(chk):
    """CommentMC.tla: TLC enumerates every comment text over {a, b, space, tab, newline} up to MaxLen x widths x ten
    placements and checks Preserved / Inside / Inert on the text the pipeline model produces."""
    from concurrent.futures import ThreadPoolExecutor
    q = chk.tier == 'quick'
    maxlen, widths = (3, '1, 6, 12, 40') if q else (4, '1, 4, 8, 12, 20, 40')
    n = common.NCPU

    def one(args):
        name, ml, ws, canary, shard, nsh = args
        wd = os.path.join(chk.workdir, 'commentmc', '%s%02d' % (name, shard))
        return common.run_tlc('CommentMC', MC_CFG % (ml, ws, canary, shard, nsh), wd, workers=1, heap='2g')
    jobs = [('mc', maxlen, widths, 'FALSE', i, n) for i in range(n)] + [('canary', 2, '1, 12', 'TRUE', 0, 1)]
    with ThreadPoolExecutor(max_workers=n) as ex:
        res = list(ex.map(one, jobs))
    states = 0
    nbad = 0
    for job, r in zip(jobs, res):
        if not r.ok:
            raise common.MachineryError('CommentMC failed:\n' + '\n'.join(r.out.splitlines()[-30:]))
        chk.add_tlc(r)
        bad = r.lines('BAD')
        if job[0] == 'canary':
            if not bad:
                chk.machinery_error('CommentMC canary (first # deleted from every output) reported nothing')
            chk.cov['canaries_total'] = chk.cov.get('canaries_total', 0) + 1
            chk.cov['canaries_rejected'] = chk.cov.get('canaries_rejected', 0) + (1 if bad else 0)
            continue
        states += r.distinct
        for line in bad:
            nbad += 1
            # the model breaks a comment clause: a defect of the design if the code agrees with the model (the
            # validation below then rejects the same placement), drift otherwise
            if nbad <= 10:
                chk.drifted('CommentMC: the pipeline model violates a comment clause: %s' % line[:300])
    chk.cov['comment_model_cases'] = states
    chk.stage('tlc.model-check CommentMC (Preserved / Inside / Inert on the pipeline model)', cases=states, bad=nbad)


def words_of_text(t):
    return t.split()


def check_c09(chk, args):
    q = chk.tier == 'quick'
    rng = chk.rng
    design_level(chk)
    bound = []
    cases = []
    meta = {}
    nprints = 0
    wid = {}
    seen = set()
    for rep in range(60 if q else 1200):
        for sk in skeletons():
            b = Builder(rng, rng.choice([0.3, 0.6, 1.0]))
            state = rng.getstate()
            try:
                plain, commented = b.build(sk)
            except ValueError:
                continue
            if not b.attached:
                continue
            if len(bound) < (700 if q else 8000):
                bound.append(commented)
            for w in ([1, 10, 40, 79] if q else [1, 5, 10, 20, 40, 79]):
                cfg = {'width': w, 'ribbon_width': rng.choice([w, max(1, w // 2), 200]), 'indent': rng.choice([2, 4])}
                nprints += 1
                desc = {'value': repr(plain)[:200], 'comments': b.attached, 'config': cfg}
                try:
                    with warnings.catch_warnings(record=True) as wl:
                        warnings.simplefilter('always')
                        with common.time_limit(20):
                            out = P.pformat(commented, **cfg)
                            ref = P.pformat(plain, **cfg)
                except (Exception, common.Timeout) as e:  # noqa
                    chk.violation('C09.raises', 'pformat raised %r with comments %r on %.200r at %r' % (e, b.attached, plain, cfg), desc)
                    continue
                bad = [str(x.message)[:300] for x in wl if 'raised an exception' in str(x.message)
                       or 'does not support rendering' in str(x.message)]
                if bad:
                    chk.violation('C09.degraded', 'printing degraded because of comment text %r on %.200r at %r: %s'
                                  % (b.attached, plain, cfg, bad[0]), desc)
                    continue
                key = (out, ref)
                if key in seen:
                    continue
                seen.add(key)
                desc['output'] = out
                try:
                    obs = pyterm.parse_output(out)
                    val = pyterm.parse_output(ref)
                    ctoks = pyterm.comment_tokens(out)
                except pyterm.ParseError as e:
                    chk.violation('C09.syntax', 'commented output is not an expression (%s): %r' % (e, desc), desc)
                    continue
                cw = [x for t in ctoks for x in t[1:].split()]
                cid = len(cases) + 1
                cases.append({'id': cid, 'mode': 'comment', 'obs': obs, 'val': val, 'subs': [], 'N': 0, 'notices': [],
                              'cwords': [wid.setdefault(x, len(wid) + 1) for x in cw],
                              'attached': [[wid.setdefault(x, len(wid) + 1) for x in words_of_text(t)] for t in b.attached]})
                meta[cid] = desc
                chk.nontrivial((out,))
    can = []
    for c in cases[:: max(1, len(cases) // 20)][:20]:
        if c['cwords']:
            k = dict(c)
            k['id'] = len(cases) + len(can) + 1
            k['cwords'] = c['cwords'][1:]
            can.append(k)
    v, st = common.tlc_batch('TermTrace', CFG, cases + can, os.path.join(chk.workdir, 'terms'), tags=('ACCEPT',),
                             min_per_shard=300, heap='2g')
    chk.add_model(st)
    acc = v['ACCEPT']
    chk.cov['canaries_total'] = chk.cov.get('canaries_total', 0) + len(can)
    for k in can:
        if k['id'] in acc:
            chk.machinery_error('canary accepted (a comment word went missing)')
        else:
            chk.cov['canaries_rejected'] += 1
    nrej = 0
    for c in cases:
        if c['id'] not in acc:
            nrej += 1
            d = meta[c['id']]
            why = 'syntax tree differs from the uncommented print' if c['obs'] != c['val'] else \
                'comment words are not an order-preserving merge of the attached comments'
            chk.violation('C09.inert' if c['obs'] != c['val'] else 'C09.preserved', '%s: %r' % (why, d), d)
    # spec -> code: the concrete pipeline model (Printers.tla: commentdoc, the comment placement of
    # sequence_of_docs / pretty_dict / build_fncall / python_to_sdocs) predicts the exact text (DRIFT only)
    from checks import values_checks as VC
    VC.CALL_TYPES[G] = lambda v: ('%s.%s' % (G.__module__, G.__qualname__), v.a, list(v.k.items()))
    for rep in range(40 if q else 500):
        for sk in skeletons():
            b = Builder(rng, rng.choice([0.3, 0.6, 1.0]), textfn=ascii_text)
            try:
                plain, commented = b.build(sk)
            except ValueError:
                continue
            if b.attached:
                bound.append(commented)
    VC.printers_binding(chk, bound, name='comments', per_value=2 if q else 3)
    chk.cov['evaluations'] = nprints * 2
    chk.cov['traces_validated_against_impl'] = len(cases)
    chk.cov['rule'] = ('value skeletons with <= 3 container nodes (lists, tuples incl. one-element, sets, frozensets, dicts '
                       'with commented keys and values, pretty_call arguments and keywords, empty containers) x random '
                       'placements of comment()/trailing_comment() x texts over an adversarial word alphabet joined by '
                       'space / tab / newline / blank line x widths; TLC checks syntax-tree equality with the uncommented '
                       'print and the word-merge clause; distinct by (commented output, plain output)')
    for c in cases[:: max(1, len(cases) // 4)][:4]:
        chk.sample(meta[c['id']])
    chk.stage('tlc.validate', prints=nprints * 2, distinct=len(cases), rejected=nrej, states=st['distinct'])
