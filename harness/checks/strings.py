"""C02: str/bytes literals are reproduced exactly however they are split.
spec/StrSplit.tla (splitter model, exhaustive), spec/StrSplitTrace.tla (binding to the
real str_to_lines + acceptance of the literal pieces found in pformat outputs)."""
import ast
import io
import itertools
import os
import tokenize
import warnings

import common
import prettyprinter as P

PP = common.pp_module('prettyprinter.prettyprinter')

MC_CFG = """CONSTANTS MaxStrLen = %d
 MaxMaxLen = %d
 Alphabet = {%s}
INIT Init
NEXT Next
INVARIANT Conservation
INVARIANT Result
INVARIANT NoEmptyPiece
INVARIANT Bounded
INVARIANT FnAgrees
PROPERTY Progress
CHECK_DEADLOCK FALSE
"""
TRACE_CFG = """CONSTANTS MaxStrLen = 0
 MaxMaxLen = 1
 Alphabet = {1}
INIT TInit
NEXT TNext
INVARIANT Report
CHECK_DEADLOCK FALSE
"""

STR_REP = {1: 'a', 2: ' ', 3: '\n', 4: "'", 5: '"', 6: '\\', 7: '\xe9', 8: '\x00', 9: '-', 10: '/'}
BYTES_REP = {1: b'a', 2: b' ', 3: b'\n', 4: b"'", 5: b'"', 6: b'\\', 7: b'\xff', 8: b'\x00', 9: b'-', 10: b'/'}
STR_CLASS = {v: k for k, v in STR_REP.items()}
BYTES_CLASS = {v[0]: k for k, v in BYTES_REP.items()}


def realize(cls_seq, is_bytes):
    if is_bytes:
        return b''.join(BYTES_REP[c] for c in cls_seq)
    return ''.join(STR_REP[c] for c in cls_seq)


def classes_of(x):
    if isinstance(x, bytes):
        return [BYTES_CLASS[b] for b in x]
    return [STR_CLASS[ch] for ch in x]


def codes(x):
    return list(x) if isinstance(x, bytes) else [ord(c) for c in x]


class F:
    def __init__(self, s):
        self.s = s


@P.register_pretty(F)
def _pretty_f(v, ctx):
    return P.pretty_call(ctx, F, v.s)


class F2:
    def __init__(self, *a, **k):
        self.a, self.k = a, k


@P.register_pretty(F2)
def _pretty_f2(v, ctx):
    return P.pretty_call(ctx, F2, *v.a, **v.k)


import collections as _collections
Rec = _collections.namedtuple('Rec', ['n', 'content'])


class StrSub(str):
    pass


class BytesSub(bytes):
    pass


PLACEMENTS = {
    'top': lambda s: s,
    'sole': lambda s: [s],
    'one-of-many': lambda s: [1, s, 2],
    'dict-key': lambda s: {s: 1},
    'dict-value': lambda s: {1: s},
    'call-arg': lambda s: F(s),
    # the literal starts to the right of the indentation: after `name=`, after an earlier argument, after a constructor name
    'call-kwarg': lambda s: F2(content=s),
    'call-second-kwarg': lambda s: [F2(1, n=2, content=s)],
    'namedtuple-field': lambda s: Rec(n=1, content=s),
    'subclass': lambda s: (StrSub(s) if isinstance(s, str) else BytesSub(s)),
    'subclass-dict-value': lambda s: {1: (StrSub(s) if isinstance(s, str) else BytesSub(s))},
}


def string_tokens(text):
    out = []
    for tok in tokenize.generate_tokens(io.StringIO('(' + text + '\n)').readline):
        if tok.type == tokenize.STRING:
            lit = tok.string
            i = 0
            while lit[i] not in '\'"':
                i += 1
            prefix = lit[:i].lower()
            out.append((ast.literal_eval(lit), 'b' in prefix))
    return out


def split_cases(chk):
    """Real str_to_lines on representative strings."""
    q = chk.tier == 'quick'
    rng = chk.rng
    try:
        fn = PP.str_to_lines
        path_pattern = common.pp_module('prettyprinter.pretty_stdlib').pathstr_split_pattern
    except AttributeError:
        return None
    cases = []
    alpha = list(range(1, 9))
    strs = [tuple(x) for n in range(0, (3 if q else 4) + 1) for x in itertools.product(alpha, repeat=n)]
    strs += [tuple(rng.choice(list(range(1, 11))) for _ in range(rng.randint(4, 14))) for _ in range(400 if q else 6000)]
    cid = 0
    budget_hit = 0
    for cls in strs:
        for is_bytes in (False, True):
            s = realize(cls, is_bytes)
            for path in ((False, True) if not is_bytes else (False,)):
                for quote in ('single', 'double'):
                    for max_len in ((1, 2, 3, 5) if q else (1, 2, 3, 4, 5, 6, 8)):
                        cid += 1
                        uq = "'" if quote == 'single' else '"'
                        try:
                            lines = []
                            with common.time_limit(5):
                                for i, ln in enumerate(fn(max_len, uq, s, pattern=path_pattern if path else None)):
                                    lines.append(ln)
                                    if i > 10 * (len(s) + 2):
                                        raise RuntimeError('does not terminate')
                        except (Exception, common.Timeout) as e:  # noqa
                            chk.violation('C02.splitter', 'str_to_lines(%d, %r, %r, path=%s) raised / diverged: %r'
                                          % (max_len, uq, s, path, e), {'s': repr(s), 'max_len': max_len})
                            if isinstance(e, common.Timeout):
                                budget_hit += 1
                                if budget_hit >= 3:
                                    return cases
                            continue
                        cases.append({'id': cid, 'kind': 'split', 's': list(cls), 'bytes': is_bytes, 'path': path,
                                      'q': quote, 'maxLen': max_len, 'lines': [classes_of(l) for l in lines],
                                      'pieces': [], 'prefixes': [], 'py': repr(s)})
    return cases


def test_strings(chk):
    q = chk.tier == 'quick'
    rng = chk.rng
    out = []
    for is_bytes in (False, True):
        rep = BYTES_REP if is_bytes else STR_REP
        alpha = list(range(1, 9))
        base = [tuple(x) for n in range(0, 3) for x in itertools.product(alpha, repeat=n)]
        tri = [tuple(x) for x in itertools.product(alpha, repeat=3)]
        base += tri if not q else rng.sample(tri, 60)
        for cls in base:
            s = realize(cls, is_bytes)
            out.append(s)
        empty = b'' if is_bytes else ''
        fillers = [realize([1] * 40, is_bytes), empty.join([realize([1, 1, 1, 1, 2], is_bytes)] * 8)]
        for cls in (base if not q else rng.sample(base, 40)):
            s = realize(cls, is_bytes)
            for f in fillers:
                k = rng.choice([0, len(f) // 2, len(f)])
                out.append(f[:k] + s + f[k:])
        for _ in range(40 if q else 600):
            n = rng.randint(10, 120)
            if is_bytes:
                out.append(bytes(rng.choice([rng.randrange(256), 32, 97, 39, 34, 92]) for _ in range(n)))
            else:
                out.append(''.join(rng.choice([chr(rng.randrange(32, 127)), ' ', "'", '"', '\\', '\n', '\x00', '\xe9',
                                               '中', '\U0001f600', '\t', '\xa0', '-', '/', 'word'])
                                   for _ in range(n)))
    # runs of one unusual character (longer than any piece), alone and embedded: the splitter must still
    # make progress whatever Unicode category the characters at a cut point have
    UNUSUAL = ['\u0301', '\u030a', '\u200d', '\u200b', '\u2028', '\u2029', '\x85', '\x0c', '\x0b', '\x1c', '\t', '\xa0',
               '\u3000', '\U0001f600', '\ufeff', '\u202e', '\x7f', '\xad', '\r', '\ud800', '\U000e0001']
    for ch in (UNUSUAL if not q else rng.sample(UNUSUAL, 7) + ['\u0301']):
        out.append(ch * 30)
        out.append('head a' + ch * 40 + ' tail')
        out.append('z' + (ch + '\u030a\u0308') * 5 + ' tail')
    return out


def piece_cases(chk):
    q = chk.tier == 'quick'
    rng = chk.rng
    strs = test_strings(chk)
    cases = []
    seen = set()
    nprints = 0
    ntimeouts = 0
    cid = 10 ** 7
    for s in strs:
        is_bytes = isinstance(s, bytes)
        for pname, mk in PLACEMENTS.items():
            widths = list(range(1, len(s) + 15))
            if q and len(widths) > 7:
                widths = sorted(set(rng.sample(widths, 6) + [1, 79]))
            elif len(widths) > 40:
                widths = sorted(set(rng.sample(widths, 38) + [1, 79]))
            for w in widths:
                rw = rng.choice([w, w, max(1, w // 2), 200])
                nprints += 1
                desc = {'string': repr(s), 'placement': pname, 'width': w, 'ribbon_width': rw}
                try:
                    with warnings.catch_warnings(record=True) as wl:
                        warnings.simplefilter('always')
                        with common.time_limit(10):
                            out = P.pformat(mk(s), width=w, ribbon_width=rw)
                except (Exception, common.Timeout) as e:  # noqa
                    chk.violation('C02.raises', 'pformat raised %r for %r' % (e, desc), desc)
                    if isinstance(e, common.Timeout):
                        ntimeouts += 1
                        if ntimeouts >= 3:
                            return cases, nprints
                    continue
                if any('raised an exception' in str(x.message) for x in wl):
                    chk.violation('C02.printer-failed', 'the str printer failed internally for %r' % (desc,), desc)
                    continue
                key = (s, pname, out)
                if key in seen:
                    continue
                seen.add(key)
                desc['output'] = out
                try:
                    toks = string_tokens(out)
                except Exception as e:  # noqa
                    chk.violation('C02.syntax', 'output cannot be tokenised (%r): %r' % (e, desc), desc)
                    continue
                cid += 1
                cases.append({'id': cid, 'kind': 'pieces', 's': codes(s), 'bytes': is_bytes, 'path': False, 'q': 'single',
                              'maxLen': 1, 'lines': [],
                              'pieces': [codes(t) if isinstance(t, (bytes, str)) and isinstance(t, bytes) == is_bytes
                                         else [-1] for t, _ in toks],
                              'prefixes': [b for _, b in toks], 'desc': desc,
                              'py_ok': python_pieces_ok(s, toks)})
    return cases, nprints


def python_pieces_ok(s, toks):
    if not toks:
        return False
    if any(isinstance(t, bytes) != isinstance(s, bytes) for t, _ in toks):
        return False
    empty = b'' if isinstance(s, bytes) else ''
    if empty.join(t for t, _ in toks) != s:
        return False
    if any(b != isinstance(s, bytes) for _, b in toks):
        return False
    if s and any(not t for t, _ in toks):
        return False
    if not s and len(toks) != 1:
        return False
    return True


def check_c02(chk, args):
    q = chk.tier == 'quick'
    # (i) model level: the splitter, exhaustively
    wd = os.path.join(chk.workdir, 'mc')
    cfg = MC_CFG % ((4, 6, '1,2,3,4,5,6,7,8') if q else (5, 8, '1,2,3,4,5,6,7,8,9,10'))
    r = common.run_tlc('StrSplit', cfg, wd, workers=common.NCPU, heap='12g',
                       extra=['-coverage', '1'] if not q else [])
    chk.add_tlc(r)
    if r.invariant_violated or 'is violated' in r.out:
        tail = '\n'.join(r.out.splitlines()[-40:])
        chk.violation('C02.model', 'StrSplit.tla: the transcription of str_to_lines violates an abstract clause\n' + tail,
                      {'tlc': tail})
    elif not r.ok:
        raise common.MachineryError('StrSplit failed:\n' + '\n'.join(r.out.splitlines()[-30:]))
    chk.stage('tlc.model-check StrSplit', states=r.distinct, transitions=r.generated, wall=round(r.wall, 1),
              exhaustive=True)
    # (ii) binding to the real splitter
    sc = split_cases(chk)
    if sc is None:
        chk.cov['splitter_binding'] = 'skipped: str_to_lines not importable with this signature'
        sc = []
    pc, nprints = piece_cases(chk)
    v, st = common.tlc_batch('StrSplitTrace', TRACE_CFG, sc + pc, os.path.join(chk.workdir, 'trace'),
                             tags=('ACCEPT', 'MODEL'), min_per_shard=1500, heap='2g')
    chk.add_model(st)
    acc = v['ACCEPT']
    nd = 0
    for c in sc:
        if c['id'] not in acc:
            chk.violation('C02.splitter', 'str_to_lines(max_len=%d, quote=%s, s=%s, path=%s) -> %r: lines do not '
                          'concatenate to s or an empty line was produced' % (
                              c['maxLen'], c['q'], c['py'], c['path'], c['lines']), c)
        if c['id'] not in v['MODEL']:
            nd += 1
            chk.drifted('StrSplit.tla splits %s (max_len=%d, %s quote, bytes=%s, path=%s) differently from the code %r'
                        % (c['py'], c['maxLen'], c['q'], c['bytes'], c['path'], c['lines']))
    nrej = 0
    for c in pc:
        ok = c['id'] in acc
        if ok != c['py_ok']:
            chk.machinery_error('StrSplitTrace!PiecesOK and the Python join disagree on %r' % (c['desc'],))
        if not ok:
            nrej += 1
            chk.violation('C02.pieces', 'the literal pieces printed for %r do not reproduce the value: %r' % (
                c['desc'], c['pieces'] if len(str(c['pieces'])) < 300 else '...'), c['desc'])
        if len(c['pieces']) > 1:
            chk.nontrivial((c['desc']['string'], c['desc']['placement'], c['desc']['output']))
    chk.cov['evaluations'] = nprints + len(sc)
    chk.cov['traces_validated_against_impl'] = len(sc) + len(pc)
    chk.cov['rule'] = ('(i) StrSplit.tla explored for ALL class strings up to the bound x max_len x quote x str/bytes x '
                       'pattern; (ii) the real str_to_lines on all representative strings up to length 3/4 and random '
                       'longer ones, lines compared with the model (DRIFT) and with the abstract clauses; (iii) pformat '
                       'of strings (all of length <= 2, sampled/all of length 3, embedded in fillers, random long '
                       'unicode/binary) at six placements x every width 1..len+14: STRING tokens decoded with '
                       'ast.literal_eval and judged by TLC (PiecesOK); non-trivial = the literal was split in >= 2 pieces; '
                       'distinct by (string, placement, output)')
    for c in pc[:: max(1, len(pc) // 4)][:4]:
        chk.sample(c['desc'])
    chk.assumptions += ['tokenize + ast.literal_eval are the trusted lexer for single string pieces',
                        'character classes are realised by one representative each']
    chk.stage('tlc.validate', splitter_runs=len(sc), outputs=len(pc), prints=nprints, rejected=nrej, drift=nd,
              states=st['distinct'], wall=round(st['wall'], 1))
