"""C13 (cycles cut exactly at back-references) and C14 (a failing printer is contained).
spec/Walk.tla: abstract Unfold + concrete visit-bracket machine; WalkMC (model checking),
WalkTrace (validation of real executions)."""
import itertools
import os
import warnings

import common
import pyterm
import prettyprinter as P

PP = common.pp_module('prettyprinter.prettyprinter')
TRACE_CFG = "INIT Init\nNEXT Next\nINVARIANT Report\nCHECK_DEADLOCK FALSE\n"
MC_CFG = ("INIT Init\nNEXT Next\nINVARIANT VisitedIsPath\nINVARIANT NoResidue\nINVARIANT RefinesUnfold\n"
          "INVARIANT AtMostOneWarning\nINVARIANT Emit\nCHECK_DEADLOCK FALSE\n")


class Faults:
    inv = 0
    fault = 0
    hit = None        # nid of the object whose printer invocation was made to fail
    always = None     # nid whose printer fails at EVERY invocation (reference renderings)
    also = ()         # further invocation indices that fail in the same call (pairs of faults)
    always_set = ()   # nids whose printers fail at every invocation
    hits = None       # list of nids hit when `also` is used
    order = None      # nid of every invocation, in order (when a list)
    exc = ValueError
    msg = 'boom'


# exception payloads a warning / fallback path must survive
MESSAGES = ['boom', "unexpected token '}' at {0} in {name}", '100% %s %(x)s', '', {'id': 7}, 'multi\nline \x00 \u2603',
            ('tuple', 'args')]


class U:
    """user type whose printer does not take trailing_comment"""

    def __init__(self, nid):
        self.nid = nid
        self.kids = []

    def __repr__(self):
        return 'U_n%d' % self.nid


class V(U):
    """user type whose printer accepts trailing_comment"""


class MyError(Exception):
    pass


@P.register_pretty(U)
def pretty_u(value, ctx):
    Faults.inv += 1
    if Faults.order is not None:
        Faults.order.append(value.nid)
    if Faults.inv == Faults.fault or Faults.inv in Faults.also:
        Faults.hit = value.nid
        if Faults.hits is not None:
            Faults.hits.append(value.nid)
        raise Faults.exc(Faults.msg)
    if Faults.always == value.nid or value.nid in Faults.always_set:
        raise ValueError('reference rendering')
    return P.pretty_call(ctx, U, *value.kids)


@P.register_pretty(V)
def pretty_v(value, ctx, trailing_comment=None):
    Faults.inv += 1
    if Faults.order is not None:
        Faults.order.append(value.nid)
    if Faults.inv == Faults.fault or Faults.inv in Faults.also:
        Faults.hit = value.nid
        if Faults.hits is not None:
            Faults.hits.append(value.nid)
        raise Faults.exc(Faults.msg)
    if Faults.always == value.nid or value.nid in Faults.always_set:
        raise ValueError('reference rendering')
    return P.pretty_call(ctx, U, *value.kids)


def reachable(graph, root):
    seen = []
    stack = [root]
    while stack:
        n = stack.pop()
        if n in seen:
            continue
        seen.append(n)
        for r in graph[n - 1]['c']:
            if r > 0:
                stack.append(r)
    return seen


def canonical(graph, root):
    """Prune unreachable nodes and renumber in DFS order."""
    order = []

    def dfs(n):
        if n in order:
            return
        order.append(n)
        for r in graph[n - 1]['c']:
            if r > 0:
                dfs(r)
    dfs(root)
    ren = {n: i + 1 for i, n in enumerate(order)}
    g = []
    for n in order:
        nd = graph[n - 1]
        g.append({'k': nd['k'], 'c': [ren[r] if r > 0 else r for r in nd['c']], 'tc': nd.get('tc', 0)})
        if nd.get('cm'):
            g[-1]['cm'] = 1
        if nd['k'] == 'obj':
            g[-1]['acc'] = bool(nd.get('acc'))
    return g, 1


def merge_singletons(graph):
    """CPython has ONE empty tuple: two empty-tuple nodes are the same object, so they are one node of the object
    graph (otherwise the observer's id -> node map is ambiguous and the visit log drifts from the model)."""
    empties = [i + 1 for i, nd in enumerate(graph) if nd['k'] == 'tuple' and not nd['c']]
    if len(empties) < 2:
        return graph
    first = empties[0]
    return [dict(nd, c=[first if r in empties else r for r in nd['c']]) for nd in graph]


def valid(graph):
    for nd in graph:
        if nd['k'] == 'tuple':
            for r in nd['c']:
                if r > 0 and graph[r - 1]['k'] == 'tuple':
                    return False
    return True


def enum_graphs(n, kinds, max_slots=2):
    """All graphs with exactly n nodes (root = 1), before pruning."""
    per_node = []
    for i in range(1, n + 1):
        opts = []
        for k in kinds:
            for ns in range(0, max_slots + 1):
                targets = list(range(1, n + 1)) + [0]
                for combo in itertools.product(targets, repeat=ns):
                    c = [t if t > 0 else -(10 * i + j + 1) for j, t in enumerate(combo)]
                    opts.append({'k': k, 'c': c})
        per_node.append(opts)
    for combo in itertools.product(*per_node):
        yield [dict(x) for x in combo]


def random_graph(rng, n, kinds=('list', 'dict', 'tuple', 'list')):
    g = []
    for i in range(1, n + 1):
        k = rng.choice(kinds)
        ns = rng.choice([0, 1, 2, 2, 3])
        c = []
        for j in range(ns):
            if rng.random() < 0.6:
                c.append(rng.randint(1, n))
            else:
                c.append(-(10 * i + j + 1))
        g.append({'k': k, 'c': c})
    return g


class StandIn:
    """an object of an unregistered class that prints the way a failed U / V is expected to: its repr"""

    def __init__(self, nid):
        self.nid = nid
        self.kids = []

    def __repr__(self):
        return 'U_n%d' % self.nid


def build(graph, standin=()):
    """Real objects for a graph; returns list of objects (index = node id - 1). Nodes in `standin` are built as
    StandIn objects (the independent reference for 'that value alone is rendered with its repr')."""
    objs = [None] * len(graph)
    for i, nd in enumerate(graph):
        if nd['k'] == 'obj' and (i + 1) in standin:
            objs[i] = StandIn(i + 1)
            continue
        if nd['k'] == 'list':
            objs[i] = []
        elif nd['k'] == 'dict':
            objs[i] = {}
        elif nd['k'] == 'obj':
            objs[i] = (V if nd.get('acc') else U)(i + 1)

    def ref(r):
        return objs[r - 1] if r > 0 else -r
    for i, nd in enumerate(graph):
        if nd['k'] == 'tuple':
            objs[i] = tuple(ref(r) for r in nd['c'])
    for i, nd in enumerate(graph):
        if nd['k'] == 'list':
            objs[i].extend(wrap(graph, r, ref(r)) for r in nd['c'])
        elif nd['k'] == 'dict':
            for j, r in enumerate(nd['c']):
                objs[i][100 + j + 1] = wrap(graph, r, ref(r))
        elif nd['k'] == 'obj' and not isinstance(objs[i], StandIn):
            objs[i].kids = [wrap(graph, r, ref(r)) for r in nd['c']]
    return objs


def wrap(graph, r, obj):
    if r > 0 and graph[r - 1].get('tc'):
        return P.trailing_comment(obj, 'tc')
    if r > 0 and graph[r - 1].get('cm'):
        # wherever the node is referenced it carries a comment (as a dict value it is then rendered a second time,
        # lazily, when the comment does not fit on its line)
        return P.comment(obj, 'a comment on node %d' % r)
    return obj


def tokens(term):
    out = []

    def go(t):
        k = t[0]
        if k in ('list', 'tuple', 'set'):
            out.append([k, len(t[1])])
            for x in t[1]:
                go(x)
        elif k == 'dict':
            out.append(['dict', len(t[1])])
            for a, b in t[1]:
                go(a)
                go(b)
        elif k == 'int':
            out.append(['int', int(t[1])])
        elif k == 'call':
            out.append(['call', len(t[2]) + len(t[3])])
            for x in t[2]:
                go(x)
            for _, x in t[3]:
                go(x)
        elif k == 'rec':
            out.append(['rec', 'obj' if t[1] in ('U', 'V') else t[1], t[2]])
        elif k == 'name' and t[1].startswith('U_n'):
            out.append(['repr', int(t[1][3:])])
        else:
            out.append(['other', 0])
    go(term)
    return out


class Observer:
    """Wraps PrettyContext.start_visit / end_visit / is_visited (class attributes)."""

    def __init__(self):
        self.log = []
        self.ids = {}
        self.sets = []

    def __enter__(self):
        C = PP.PrettyContext
        self.orig = tuple(getattr(C, n, None) for n in ('start_visit', 'end_visit', 'is_visited'))
        if any(f is None for f in self.orig):
            # the visit bookkeeping is organised differently: nothing to observe (the visit log is DRIFT-level
            # information only; the output is judged as before)
            self.disabled = True
            return self
        obs = self

        def start_visit(ctx, value):
            r = obs.orig[0](ctx, value)
            if not any(s is ctx.visited for s in obs.sets):
                obs.sets.append(ctx.visited)
            if id(value) in obs.ids:
                obs.log.append(['start', obs.ids[id(value)]])
            return r

        def end_visit(ctx, value):
            r = obs.orig[1](ctx, value)
            if id(value) in obs.ids:
                obs.log.append(['end', obs.ids[id(value)]])
            return r

        def is_visited(ctx, value):
            r = obs.orig[2](ctx, value)
            if r and id(value) in obs.ids:
                obs.log.append(['hit', obs.ids[id(value)]])
            return r
        C.start_visit, C.end_visit, C.is_visited = start_visit, end_visit, is_visited
        return self

    disabled = False

    def __exit__(self, *a):
        if self.disabled:
            return
        C = PP.PrettyContext
        C.start_visit, C.end_visit, C.is_visited = self.orig


def observe(graph, root, fault=0, exc=ValueError, width=79):
    """Print the graph twice (the second time fault-free); returns the case fields or an error."""
    objs = build(graph)
    ids = {id(o): i + 1 for i, o in enumerate(objs)}
    res = {}
    with Observer() as ob:
        ob.ids = ids
        Faults.inv, Faults.fault, Faults.exc = 0, fault, exc
        Faults.msg = MESSAGES[(fault + len(graph) + len(exc.__name__)) % len(MESSAGES)] if fault else 'boom'
        with warnings.catch_warnings(record=True) as wl:
            warnings.simplefilter('always')
            with common.time_limit(20):
                out = P.pformat(wrap(graph, root, objs[root - 1]), width=width)
        res['nwarn'] = sum(1 for w in wl if 'raised an exception' in str(w.message))
        res['warn_names'] = [str(w.message).split(',')[1].strip() for w in wl if 'raised an exception' in str(w.message)]
        res['log'] = list(ob.log)
        res['residue'] = sum(len([k for k in s if (s[k] if isinstance(s, dict) else True)]) for s in ob.sets)
        Faults.inv, Faults.fault = 0, 0
        with warnings.catch_warnings():
            warnings.simplefilter('ignore')
            with common.time_limit(20):
                out2 = P.pformat(wrap(graph, root, objs[root - 1]), width=width)
    res['out'], res['out2'] = out, out2
    res['nolog'] = ob.disabled
    res['obs'] = tokens(pyterm.parse_output(out, recursion_ids=ids))
    res['obs2'] = tokens(pyterm.parse_output(out2, recursion_ids=ids))
    return res


def graph_universe(chk):
    q = chk.tier == 'quick'
    rng = chk.rng
    seen = set()
    out = []

    def add(g, root=1):
        if not valid(g):
            return
        g = merge_singletons(g)
        if g[root - 1]['k'] == 'tuple' and not g[root - 1]['c']:
            root = min(i + 1 for i, nd in enumerate(g) if nd['k'] == 'tuple' and not nd['c'])
        cg, r = canonical(g, root)
        if not valid(cg):
            return
        key = repr(cg)
        if key in seen:
            return
        seen.add(key)
        out.append((cg, r))
    for n in (1, 2):
        for g in enum_graphs(n, ('list', 'dict', 'tuple')):
            add(g)
    n3 = list(enum_graphs(3, ('list', 'dict'), max_slots=2))
    if q:
        n3 = rng.sample(n3, 2500)
    for g in n3:
        add(g)
    if not q:
        for _ in range(20000):
            add(random_graph(rng, 4))
    for _ in range(300 if q else 5000):
        add(random_graph(rng, rng.randint(4, 10)))
    # containers that carry a trailing comment wherever they are referenced - and as the root of the print
    for _ in range(300 if q else 5000):
        g = random_graph(rng, rng.randint(1, 5), kinds=('list', 'dict', 'list', 'tuple'))
        for nd in g:
            if nd['k'] in ('list', 'dict') and rng.random() < 0.5:
                nd['tc'] = 1
        add(g)
    # cycles / shared nodes that are reached through comment() wrappers (dict values, list items, tuple items)
    for _ in range(300 if q else 5000):
        g = random_graph(rng, rng.randint(2, 6), kinds=('list', 'dict', 'dict', 'tuple'))
        for nd in g:
            if rng.random() < 0.5:
                nd['cm'] = 1
        add(g)
    # cycles that run through instances of user types (printed with pretty_call) as well
    for _ in range(300 if q else 5000):
        g = random_graph(rng, rng.randint(2, 7), kinds=('list', 'dict', 'obj', 'obj', 'tuple'))
        for nd in g:
            if nd['k'] == 'obj':
                nd['acc'] = rng.random() < 0.5
        add(g)
    return out


def run_cases(chk, cases, meta, prop, known=None):
    # canaries: a marker turned into a full expansion is not the unfolding
    can = []
    for c in cases:
        if len(can) >= 25:
            break
        idx = [i for i, t in enumerate(c['obs']) if t[0] == 'rec']
        if idx:
            k = dict(c)
            k['obs'] = [t for i, t in enumerate(c['obs']) if i != idx[0]] + [['int', 7]]
            k['id'] = 10 ** 6 + len(can)
            can.append(k)
    v, st = common.tlc_batch('WalkTrace', TRACE_CFG, cases + can, os.path.join(chk.workdir, 'trace'), tags=('DONE',),
                             min_per_shard=250, heap='2g')
    chk.add_model(st)
    chk.cov['canaries_total'] += len(can)
    for k in can:
        bad = v['DONE'][k['id']][0][2][1]
        if 'unfold' in bad:
            chk.cov['canaries_rejected'] += 1
        else:
            chk.machinery_error('canary accepted by WalkTrace')
    nv = nd = 0
    for c in cases:
        line = v['DONE'].get(c['id'])
        if not line:
            chk.machinery_error('no verdict for case %d' % c['id'])
            continue
        bad = set(line[0][2][1])
        drift = line[0][3]
        m = meta[c['id']]
        if bad:
            nv += 1
            chk.violation('%s.%s' % (prop, sorted(bad)[0]), '%s: clauses %s fail: graph=%r fault=%r output=%r second=%r '
                          'warnings=%r residue=%r' % (prop, sorted(bad), m['graph'], m.get('fault'), m['out'][:400],
                                                      m['out2'][:200], m.get('nwarn'), m.get('residue')), m)
        if drift:
            nd += 1
            chk.drifted('Walk.tla visit-bracket machine differs from the code on graph %r fault %r' % (m['graph'], m.get('fault')))
    return nv, nd, st


def model_check(chk, graphs, faults, name):
    wd = os.path.join(chk.workdir, name)
    os.makedirs(wd, exist_ok=True)
    cases = [{'id': i + 1, 'graph': [{'k': nd['k'], 'c': nd['c']} for nd in g], 'root': r, 'faults': faults}
             for i, (g, r) in enumerate(graphs)]
    cf = os.path.join(wd, 'cases.ndjson')
    common.write_ndjson(cf, cases)
    r = common.run_tlc('WalkMC', MC_CFG, wd, env={'CASES': cf}, workers=common.NCPU, heap='6g',
                       extra=['-coverage', '1'] if chk.tier == 'thorough' else [])
    chk.add_tlc(r)
    if r.invariant_violated:
        tail = '\n'.join(r.out.splitlines()[-40:])
        chk.violation(chk.pid + '.model', 'WalkMC: the visit-bracket machine violates the abstract traversal rule\n' + tail,
                      {'tlc': tail})
    elif not r.ok:
        raise common.MachineryError('WalkMC failed:\n' + '\n'.join(r.out.splitlines()[-30:]))
    chk.stage('tlc.model-check WalkMC', graphs=len(cases), fault_plans=faults, states=r.distinct,
              transitions=r.generated, wall=round(r.wall, 1))


def check_c13(chk, args):
    graphs = graph_universe(chk)
    chk.stage('universe', graphs=len(graphs))
    model_check(chk, graphs[:20000], False, 'mc')
    cases = []
    meta = {}
    for i, (g, r) in enumerate(graphs):
        m = {'graph': g, 'root': r}
        if common.give_up():
            chk.stage('universe abandoned: prints keep running out of time', graphs_observed=i, of=len(graphs))
            break
        try:
            o = observe(g, r, width=79 if i % 3 else 1)
        except (Exception, common.Timeout) as e:  # noqa
            chk.violation('C13.terminates', 'printing the object graph %r raised / did not terminate: %r' % (g, e), m)
            continue
        m.update({'out': o['out'], 'out2': o['out2'], 'residue': o['residue']})
        cases.append({'id': i + 1, 'graph': [{'k': nd['k'], 'c': nd['c']} for nd in g], 'root': r, 'fault': 0,
                      'obs': o['obs'], 'obs2': o['obs2'], 'log': o['log'], 'residue': o['residue'], 'nwarn': o['nwarn'],
                      'lazy': any(nd.get('cm') for nd in g) or o.get('nolog', False)})
        meta[i + 1] = m
        if any(t[0] == 'rec' for t in o['obs']):
            chk.nontrivial(repr(g))
    nv, nd, st = run_cases(chk, cases, meta, 'C13')
    chk.cov['evaluations'] = len(cases) * 2
    stdlib_cycles(chk)
    aborted_prints(chk)
    overlapping_prints(chk)
    depth_limited_cycles(chk, graphs)
    chk.cov['traces_validated_against_impl'] = len(cases)
    chk.cov['rule'] = ('rooted directed graphs of list / dict / tuple nodes with 0-2 child slots (node or int leaf): all '
                       'with <= 2 nodes, all/sampled with 3 list-or-dict nodes, random ones up to 10 nodes; unreachable '
                       'nodes pruned, isomorphic renumberings merged; each printed twice; TLC compares the token sequence '
                       'of the parsed output with Walk!Unfold and the visit log with the concrete machine; non-trivial = '
                       'the output contains a recursion marker; distinct by canonical graph')
    for c in cases[:: max(1, len(cases) // 4)][:4]:
        chk.sample({'graph': meta[c['id']]['graph'], 'output': meta[c['id']]['out'][:200]})
    chk.stage('tlc.validate', graphs=len(cases), rejected=nv, drift=nd, states=st['distinct'])


def aborted_prints(chk):
    """'Printing leaves no residue': a print that is ABORTED by an exception escaping pformat (a leaf whose __repr__
    raises; warnings turned into errors) must not influence later prints - of the same value, of another value that
    shares its containers, with the same and with other settings."""
    class Leaf:
        armed = True

        def __repr__(self):
            if Leaf.armed:
                raise RuntimeError('repr of the leaf fails')
            return 'Leaf()'
    inner = [1, 2]
    mid = [inner, (inner, Leaf())]
    top = {1: inner, 2: mid}
    other = [mid, inner, top]
    n = 0
    for cfg in ({}, {'width': 20}, {'depth': 5}, {'indent': 2, 'sort_dict_keys': True}):
        Leaf.armed = False
        with warnings.catch_warnings():
            warnings.simplefilter('ignore')
            want = [P.pformat(top, **cfg), P.pformat(other, **cfg), P.pformat(inner, **cfg)]
        Leaf.armed = True
        aborted = None
        try:
            with warnings.catch_warnings():
                warnings.simplefilter('ignore')
                P.pformat(top, **cfg)
        except Exception as e:  # noqa
            aborted = repr(e)
        Leaf.armed = False
        with warnings.catch_warnings():
            warnings.simplefilter('ignore')
            got = [P.pformat(top, **cfg), P.pformat(other, **cfg), P.pformat(inner, **cfg)]
        n += 7
        desc = {'config': cfg, 'aborted_with': aborted}
        if aborted is None:
            continue          # the failure was contained: nothing was aborted
        for name, w, g in zip(('the same value', 'another value sharing its containers', 'an inner container'), want, got):
            if w != g:
                chk.violation('C13.repeat', 'after a print aborted by %s, printing %s gives %r instead of %r (config %r)'
                              % (aborted, name, g, w, cfg), dict(desc, output=g, expected=w))
        chk.nontrivial(('aborted', repr(cfg)))
    # a print aborted because a warning is an error
    objs = build([{'k': 'list', 'c': [2, 2]}, {'k': 'obj', 'c': [-1], 'acc': False}])
    Faults.inv, Faults.fault, Faults.exc, Faults.msg = 0, 1, ValueError, 'boom'
    try:
        with warnings.catch_warnings():
            warnings.simplefilter('error')
            P.pformat(objs[0])
    except Exception:  # noqa
        pass
    Faults.inv, Faults.fault = 0, 0
    with warnings.catch_warnings():
        warnings.simplefilter('ignore')
        again = P.pformat(objs[0])
    if 'Recursion' in again:
        chk.violation('C13.repeat', 'after a print aborted by a warning turned into an error, the value prints with a '
                      'recursion marker although it contains no cycle: %r' % (again,), {'output': again})
    chk.cov['evaluations'] += n + 2
    chk.stage('aborted-prints', prints=n + 2)


def depth_limited_cycles(chk, graphs):
    """Cycles x the depth limit: with depth=d the recursion markers of the unlimited print that sit inside at most d
    containers are all there, in order, and no others (a back-reference AT the cut level is still 'reached again
    while being printed': it is a marker, not a placeholder); printing terminates."""
    import re
    mark = re.compile(r'<Recursion on \w+ with id=\d+>')

    def markers(text):
        out, level, i = [], 0, 0
        for m in mark.finditer(text):
            seg = text[i:m.start()]
            level += sum(seg.count(c) for c in '[({') - sum(seg.count(c) for c in '])}')
            out.append((level, m.group(0)))
            i = m.end()
        return out
    q = chk.tier == 'quick'
    n = 0
    picked = 0
    for g, r in graphs:
        if picked >= (400 if q else 6000) or common.give_up():
            break
        objs = build(g)
        root = wrap(g, r, objs[r - 1])
        try:
            with warnings.catch_warnings():
                warnings.simplefilter('ignore')
                with common.time_limit(20):
                    full = P.pformat(root, width=79)
        except (Exception, common.Timeout):
            continue                      # reported by the main loop
        ms = markers(full)
        if not ms:
            continue
        picked += 1
        for d in (1, 2, 3, 4):
            n += 1
            desc = {'graph': g, 'root': r, 'depth': d, 'unlimited_output': full[:600]}
            try:
                with warnings.catch_warnings():
                    warnings.simplefilter('ignore')
                    with common.time_limit(20):
                        out = P.pformat(root, width=79, depth=d)
            except (Exception, common.Timeout) as e:  # noqa
                chk.violation('C13.terminates', 'printing the object graph %r with depth=%d raised / did not terminate: %r'
                              % (g, d, e), desc)
                continue
            want = [t for lv, t in ms if lv <= d]
            got = [t for _, t in markers(out)]
            if got != want:
                chk.violation('C13.unfold', 'with depth=%d the recursion markers are %r; those of the unlimited print nested in '
                              'at most %d containers are %r (graph %r, output %r)' % (d, got, d, want, g, out[:300]),
                              dict(desc, output=out))
            chk.nontrivial(('depth-cycle', repr(g), d))
    chk.cov['evaluations'] += n
    chk.stage('depth-limited-cycles', prints=n)


def overlapping_prints(chk):
    """'...exactly where it is reached again WHILE IT IS STILL BEING PRINTED' is about the print in which it is reached:
    a second print (another thread) that meets a container the first print is inside of at that moment has not
    reached it 'again'. Two threads print values sharing containers, switched at source lines of the package; each
    result must be the lone print's."""
    import glob as _glob
    import sched
    pkgdir = os.path.dirname(P.__file__)
    files = _glob.glob(os.path.join(pkgdir, '*.py'))
    shared = [1, 2]
    g1 = [shared, {'k': shared}, (shared,)]
    cyc = [g1]
    cyc.append(cyc)
    outer = {'a': g1, 'b': [g1, shared]}
    vals = {'g1': g1, 'cyc': cyc, 'outer': outer, 'shared': shared}

    def job(name, **kw):
        def fn():
            with warnings.catch_warnings():
                warnings.simplefilter('ignore')
                return P.pformat(vals[name], **kw)
        return fn
    lone = {n: job(n, width=20)() for n in vals}
    q = chk.tier == 'quick'
    n = 0
    for a, b in (('g1', 'g1'), ('cyc', 'g1'), ('outer', 'cyc'), ('g1', 'shared'), ('outer', 'outer')):
        _, _, na = sched.run_with_preemption(job(a, width=20), job(b, width=20), None, files)
        for k in sorted(set(max(1, na * i // (12 if q else 60)) for i in range(1, (12 if q else 60)))):
            ra, rb, _ = sched.run_with_preemption(job(a, width=20), job(b, width=20), k, files)
            n += 1
            for who, nm, r in (('first', a, ra), ('second', b, rb)):
                if r != ('ok', lone[nm]):
                    chk.violation('C13.unfold', 'two overlapping prints (%s paused before its line %d while %s is printed by another '
                                  'thread): the %s gives %r, alone it gives %r' % (a, k, b, who, r[1][:300], lone[nm][:300]),
                                  {'values': [a, b], 'paused_before_line': k, 'result': list(r), 'alone': lone[nm]})
            chk.nontrivial(('overlap', a, b, k))
    chk.cov['evaluations'] += 2 * n
    chk.stage('overlapping-prints', executions=n)


def stdlib_cycles(chk):
    """Cycles that run through the containers with bundled printers (deque, OrderedDict, defaultdict, Counter,
    ChainMap, SimpleNamespace, a list subclass, a dict subclass): printing terminates, the marker names the type
    and identity of the container reached again, it appears exactly where the cycle closes (the shared acyclic
    part is printed in full each time), and a second print gives the same text."""
    import collections
    import re
    import types

    class L(list):
        pass

    class D(dict):
        pass
    makers = {
        'deque': (lambda: collections.deque([1]), lambda c, x: c.append(x)),
        'OrderedDict': (lambda: collections.OrderedDict(a=1), lambda c, x: c.__setitem__('s', x)),
        'defaultdict': (lambda: collections.defaultdict(list, a=1), lambda c, x: c.__setitem__('s', x)),
        'Counter': (lambda: collections.Counter(a=1), lambda c, x: c.__setitem__('s', x)),
        'ChainMap': (lambda: collections.ChainMap({'a': 1}), lambda c, x: c.__setitem__('s', x)),
        'SimpleNamespace': (lambda: types.SimpleNamespace(a=1), lambda c, x: setattr(c, 's', x)),
        'L': (lambda: L([1]), lambda c, x: c.append(x)),
        'D': (lambda: D(a=1), lambda c, x: c.__setitem__('s', x)),
    }
    marker = re.compile(r'<Recursion on (\w+) with id=(\d+)>')
    n = 0
    for name, (mk, link) in makers.items():
        for shape in ('self', 'via-list', 'via-dict-and-shared'):
            c = mk()
            shared = [7, 8]
            if shape == 'self':
                link(c, c)
                root, expect = c, [(type(c).__name__, id(c))]
            elif shape == 'via-list':
                inner = [c, shared]
                link(c, inner)
                root, expect = [inner, shared], [('list', id(inner))]
            else:
                inner = {'c': c, 'sh': shared}
                link(c, inner)
                root, expect = c, [(type(c).__name__, id(c))]
            for width in (79, 1):
                n += 1
                desc = {'container': name, 'shape': shape, 'width': width}
                try:
                    with warnings.catch_warnings(record=True) as wl:
                        warnings.simplefilter('always')
                        with common.time_limit(20):
                            out = P.pformat(root, width=width)
                            out2 = P.pformat(root, width=width)
                except (Exception, common.Timeout) as e:  # noqa
                    chk.violation('C13.terminates', 'printing a cyclic %s (%s) raised / did not terminate: %r' % (name, shape, e), desc)
                    continue
                desc['output'] = out
                got = [(a, int(b)) for a, b in marker.findall(out)]
                if got != expect:
                    chk.violation('C13.unfold', 'cycle through %s (%s): markers %r, expected exactly %r: %r'
                                  % (name, shape, got, expect, out), desc)
                if out2 != out:
                    chk.violation('C13.repeat', 'second print of the cyclic %s differs: %r vs %r' % (name, out, out2), desc)
                if any('raised an exception' in str(w.message) for w in wl):
                    chk.violation('C13.unfold', 'a bundled printer failed on a cyclic %s (%s)' % (name, shape), desc)
                if shape != 'self' and out.replace(' ', '').replace('\n', '').count('7,8') < (2 if shape == 'via-list' else 1):
                    chk.violation('C13.unfold', 'the shared acyclic list is not printed in full at each occurrence: %r' % (out,), desc)
                chk.nontrivial(('stdlib-cycle', name, shape, width))
    # containers whose printers are registered BY NAME (promoted on first use): mappingproxy, functools.partial, a
    # user class registered as 'module.Name' - the cycle is cut at them like at any other container
    import functools
    d_ = {'n': 1}
    mp = types.MappingProxyType(d_)
    d_['mp'] = mp
    lst = []
    part = functools.partial(len, lst)
    lst.append(part)

    class ByName:
        def __init__(self):
            self.items = []
    ByName.__module__ = 'verif_byname_%d' % id(chk)
    ByName.__qualname__ = 'ByName'
    P.register_pretty(ByName.__module__ + '.ByName')(lambda v, ctx: P.pretty_call(ctx, ByName, *v.items))
    bn = ByName()
    bn.items.append([bn])
    lazy = [('mappingproxy', mp, [('mappingproxy', id(mp))]), ('mappingproxy-in-list', [mp, 0], [('mappingproxy', id(mp))]),
            ('partial', part, [('partial', id(part))]), ('partial-root-list', lst, [('list', id(lst))]),
            ('by-name class', bn, [('ByName', id(bn))]), ('by-name class in dict', {'k': bn}, [('ByName', id(bn))])]
    for name, root, expect in lazy:
        for width in (79, 1):
            n += 1
            desc = {'container': name, 'width': width}
            try:
                with warnings.catch_warnings(record=True) as wl:
                    warnings.simplefilter('always')
                    with common.time_limit(20):
                        out = P.pformat(root, width=width)
                        out2 = P.pformat(root, width=width)
            except (Exception, common.Timeout, RecursionError) as e:  # noqa
                chk.violation('C13.terminates', 'printing a cycle through a %s raised / did not terminate: %r' % (name, e), desc)
                continue
            got = [(a, int(b)) for a, b in marker.findall(out)]
            if got != expect:
                chk.violation('C13.unfold', 'cycle through %s: markers %r, expected exactly %r: %r' % (name, got, expect, out),
                              dict(desc, output=out))
            if out2 != out:
                chk.violation('C13.repeat', 'second print of the cyclic %s differs: %r vs %r' % (name, out, out2), desc)
            chk.nontrivial(('lazy-cycle', name, width))
    PP._DEFERRED_DISPATCH_BY_NAME.pop(ByName.__module__ + '.ByName', None)
    registry_cleanup(ByName)
    chk.cov['evaluations'] += 2 * n
    chk.stage('stdlib-cycles', prints=2 * n)


# ---------------------------------------------------------------------------

# every one of them is an Exception subclass - also the ones that signal exhausted resources, end of iteration, the OS
EXCS = [ValueError, TypeError, KeyError, AttributeError, RuntimeError, ZeroDivisionError, AssertionError, MyError,
        RecursionError, MemoryError, StopIteration, OSError, NotImplementedError, UnicodeError, LookupError, EOFError,
        ImportError, BufferError, StopAsyncIteration, ArithmeticError]


def tree_universe(chk):
    """Trees / small DAGs of instrumented user objects nested in lists and dicts."""
    q = chk.tier == 'quick'
    rng = chk.rng
    out = []
    seen = set()
    for _ in range(3000 if q else 40000):
        n = rng.randint(1, 4 if rng.random() < 0.8 else 6)
        g = []
        for i in range(1, n + 1):
            k = rng.choice(['obj', 'obj', 'obj', 'list', 'dict'])
            c = []
            for j in range(rng.choice([0, 1, 2, 2])):
                if i < n and rng.random() < 0.7:
                    c.append(rng.randint(i + 1, n))       # forward edges only: a DAG (sharing allowed)
                else:
                    c.append(-(10 * i + j + 1))
            nd = {'k': k, 'c': c}
            if k == 'obj':
                nd['acc'] = rng.random() < 0.5
                nd['tc'] = 1 if (i > 1 and rng.random() < 0.3) else 0
            g.append(nd)
        if not any(nd['k'] == 'obj' for nd in g):
            continue
        reach = reachable(g, 1)
        if len(reach) != n:
            continue
        key = repr(g)
        if key in seen:
            continue
        seen.add(key)
        out.append((g, 1))
    return out


def check_c14(chk, args):
    q = chk.tier == 'quick'
    rng = chk.rng
    trees = tree_universe(chk)
    chk.stage('universe', trees=len(trees))
    model_check(chk, trees[:3000], True, 'mc')
    cases = []
    meta = {}
    cid = 0
    for g, r in trees:
        try:
            base = observe(g, r, 0)
        except (Exception, common.Timeout) as e:  # noqa
            chk.violation('C14.baseline', 'fault-free print of %r raised %r' % (g, e), {'graph': g})
            continue
        ninv = sum(1 for t in base['obs'] if t[0] == 'call')
        for fault in range(1, ninv + 1):
            excs = EXCS if not q else [EXCS[(fault + len(g)) % len(EXCS)], TypeError]
            for exc in excs:
                cid += 1
                m = {'graph': g, 'root': r, 'fault': fault, 'exception': exc.__name__}
                try:
                    o = observe(g, r, fault, exc)
                except (Exception, common.Timeout) as e:  # noqa
                    chk.violation('C14.contained', 'the %d-th printer invocation raising %s escaped from pformat as %r: '
                                  'graph=%r' % (fault, exc.__name__, e, g), m)
                    continue
                m.update({'out': o['out'], 'out2': o['out2'], 'nwarn': o['nwarn'], 'residue': o['residue'],
                          'warn_names': o['warn_names']})
                if o['nwarn'] and not all('pretty_u' in w or 'pretty_v' in w for w in o['warn_names']):
                    chk.violation('C14.warning', 'the failure warning names %r, not the failing printer: %r'
                                  % (o['warn_names'], m), m)
                cases.append({'id': cid, 'graph': [{'k': nd['k'], 'c': nd['c']} for nd in g], 'root': r, 'fault': fault,
                              'obs': o['obs'], 'obs2': o['obs2'], 'log': o['log'], 'residue': o['residue'],
                              'nwarn': o['nwarn'], 'lazy': o.get('nolog', False)})
                meta[cid] = m
                chk.nontrivial((repr(g), fault, exc.__name__))
    nv, nd, st = run_cases(chk, cases, meta, 'C14')
    chk.cov['evaluations'] = len(cases) * 2
    non_doc_scenarios(chk)
    commented_scenarios(chk)
    pair_faults(chk, trees[:: 3 if q else 1])
    depth_faults(chk, trees[1:: 4 if q else 1])
    odd_printers(chk)
    chk.cov['traces_validated_against_impl'] = len(cases)
    chk.cov['rule'] = ('trees / DAGs (<= 6 nodes) of instrumented user objects printed with pretty_call, nested in lists and '
                       'dicts, with and without trailing_comment wrappers, printers that do / do not accept '
                       'trailing_comment; EVERY printer invocation index x exception classes (all 8 in the thorough tier); '
                       'each followed by a fault-free print; TLC compares with Walk!Unfold(graph, root, fault); distinct by '
                       '(graph, fault index, exception class)')
    for c in cases[:: max(1, len(cases) // 4)][:4]:
        m = meta[c['id']]
        chk.sample({'graph': m['graph'], 'fault': m['fault'], 'exception': m['exception'], 'output': m['out'][:200]})
    chk.stage('tlc.validate', executions=len(cases), rejected=nv, drift=nd, states=st['distinct'])


def _u(nid, *kids, cls=None):
    o = (cls or U)(nid)
    o.kids = list(kids)
    return o


def commented_structures():
    """Instrumented objects under comment() / trailing_comment() in every kind of parent. A commented dict value is
    rendered up to twice (the second rendering is made lazily, inside the layout algorithm), so 'each printer
    invocation in turn' includes invocations that happen after the value-to-document pass."""
    c, tc = P.comment, P.trailing_comment
    long = 'a comment that is rather long and will not fit next to the value'
    return {
        'dict-value': lambda: {'k': c(_u(1, _u(2)), long), 'z': _u(3)},
        'dict-value-short': lambda: {'k': c(_u(1), 'c'), 'z': c(_u(2, 7), 'd')},
        'dict-value-nested': lambda: {'a': c({'b': c(_u(1, _u(2)), 'deep ' + long)}, 'outer'), 'z': _u(3)},
        'dict-value-accepting': lambda: {'k': c(_u(1, _u(2, cls=V), cls=V), long)},
        'dict-value-trailing': lambda: {'k': tc(_u(1, _u(2), cls=V), 'tc'), 'j': tc(_u(3), 'tc2')},
        'dict-key': lambda: {c('key', 'kc'): _u(1), 'other': [c(_u(2), long)]},
        'list-items': lambda: [c(_u(1), 'first'), _u(2, c(_u(3), 'inner ' + long)), c([_u(4)], 'a list')],
        'tuple-items': lambda: (c(_u(1, 5), long), _u(2)),
        'call-args': lambda: _u(1, c(_u(2), 'arg comment'), _u(3, c(6, 'leaf'))),
        'call-args-trailing': lambda: _u(1, tc([_u(2), _u(3)], 'tc ' + long), cls=V),
        'top-comment': lambda: c(_u(1, {'k': c(_u(2), long)}), 'top'),
    }


def commented_scenarios(chk):
    q = chk.tier == 'quick'
    n = nf = 0
    for name, mk in commented_structures().items():
        for width in (1, 30, 79, 200):
            v = mk()

            def render(fault=0, exc=ValueError, always=None):
                Faults.inv, Faults.fault, Faults.exc, Faults.hit, Faults.always = 0, fault, exc, None, always
                Faults.msg = MESSAGES[(fault + width) % len(MESSAGES)] if fault else 'boom'
                try:
                    with warnings.catch_warnings(record=True) as wl:
                        warnings.simplefilter('always')
                        with common.time_limit(20):
                            out = P.pformat(v, width=width)
                finally:
                    ninv, hit = Faults.inv, Faults.hit
                    Faults.inv, Faults.fault, Faults.always, Faults.hit = 0, 0, None, None
                return out, [str(w.message) for w in wl if 'raised an exception' in str(w.message)], ninv, hit
            desc0 = {'structure': name, 'width': width}
            try:
                base, w0, ninv, _ = render()
            except (Exception, common.Timeout) as e:  # noqa
                chk.violation('C14.baseline', 'fault-free print of commented structure %s raised %r' % (name, e), desc0)
                continue
            if w0:
                chk.violation('C14.baseline', 'fault-free print of %s warns %r' % (name, w0), desc0)
                continue
            refs = {}
            excs = EXCS if not q else [ValueError, TypeError, KeyError]
            for fault in range(1, ninv + 1):
                for exc in (excs if not q else [excs[(fault + width) % len(excs)], TypeError]):
                    n += 1
                    desc = dict(desc0, fault=fault, exception=exc.__name__, baseline=base)
                    try:
                        out, wl, _, hit = render(fault, exc)
                    except (Exception, common.Timeout) as e:  # noqa
                        chk.violation('C14.contained', 'invocation #%d raising %s under a comment escaped from pformat as %r '
                                      '(%s, width %d)' % (fault, exc.__name__, e, name, width), desc)
                        continue
                    desc['output'] = out
                    if hit is None:
                        continue          # fewer invocations this time: nothing was injected
                    nf += 1
                    if hit not in refs:
                        refs[hit] = render(always=hit)[0]
                    if not wl:
                        chk.violation('C14.warning', 'invocation #%d (object %d) raised %s but NO UserWarning naming the '
                                      'printer was issued: %s width=%d output=%r' % (fault, hit, exc.__name__, name, width,
                                                                                     out), desc)
                    elif not all('pretty_u' in m or 'pretty_v' in m for m in wl):
                        chk.violation('C14.warning', 'the warning does not name the failing printer: %r' % (wl,), desc)
                    if out != base and out != refs[hit]:
                        chk.violation('C14.others-unchanged', 'with invocation #%d (object %d) failing the output is neither '
                                      'the fault-free text nor that text with object %d rendered as its repr: %r'
                                      % (fault, hit, hit, out), dict(desc, reference=refs[hit]))
                    try:
                        again = render()[0]
                    except (Exception, common.Timeout) as e:  # noqa
                        again = repr(e)
                    if again != base:
                        chk.violation('C14.later-calls', 'a fault-free print after the failure differs from the baseline: %r'
                                      % (again,), desc)
                    chk.nontrivial(('commented', name, width, fault, exc.__name__))
    chk.cov['evaluations'] += n
    chk.stage('commented', executions=n, faults_injected=nf)


def depth_faults(chk, trees):
    """A printer fails while a depth limit is in force (depth = 1, 2, 3 and None): the failing value is still rendered
    with its repr - also when it sits exactly at the cut -, one warning is issued, the rest of the output is what it
    would have been. The reference is independent of the fallback path: the same structure with the failing object
    replaced by an object of an unregistered class that has the same repr."""
    q = chk.tier == 'quick'
    n = 0
    for g, r in trees:
        objs = build(g)
        root = objs[r - 1]
        for depth in (1, 2, 3, None):
            def render(obj, fault=0, exc=ValueError):
                Faults.inv, Faults.fault, Faults.exc, Faults.msg, Faults.hits, Faults.order = 0, fault, exc, 'boom', [], []
                try:
                    with warnings.catch_warnings(record=True) as wl:
                        warnings.simplefilter('always')
                        with common.time_limit(20):
                            out = P.pformat(obj, width=60, depth=depth)
                finally:
                    ninv, hits, order = Faults.inv, list(Faults.hits), list(Faults.order)
                    Faults.inv, Faults.fault, Faults.hits, Faults.order = 0, 0, None, None
                return out, [str(w.message) for w in wl if 'raised an exception' in str(w.message)], ninv, hits, order
            try:
                base, _, ninv, _, order = render(root)
            except (Exception, common.Timeout):  # noqa
                continue
            for fault in range(1, ninv + 1):
                exc = EXCS[(fault + len(g)) % len(EXCS)]
                desc = {'graph': g, 'depth': depth, 'fault': fault, 'exception': exc.__name__, 'baseline': base}
                n += 1
                try:
                    out, wl, _, hits, _ = render(root, fault, exc)
                except (Exception, common.Timeout) as e:  # noqa
                    chk.violation('C14.contained', 'invocation #%d raising %s with depth=%r escaped from pformat as %r: '
                                  'graph=%r' % (fault, exc.__name__, depth, e, g), desc)
                    continue
                desc['output'] = out
                if not hits or order.count(hits[0]) != 1:
                    continue
                try:
                    ref = render(build(g, standin={hits[0]})[r - 1])[0]
                except (Exception, common.Timeout):  # noqa
                    continue
                if len(wl) != 1:
                    chk.violation('C14.warning', 'invocation #%d failed with depth=%r: %d UserWarning(s) naming the printer '
                                  '(expected 1): graph=%r' % (fault, depth, len(wl), g), desc)
                if out != ref:
                    chk.violation('C14.others-unchanged', 'with depth=%r and invocation #%d (object %d) failing the output is '
                                  'not the text with that object rendered as its repr: %r vs %r'
                                  % (depth, fault, hits[0], out, ref), dict(desc, reference=ref))
                chk.nontrivial(('depth-fault', repr(g), depth, fault))
    chk.cov['evaluations'] += n
    chk.stage('faults under a depth limit', executions=n)


def odd_printers(chk):
    """register_pretty accepts any callable with the right signature: a failing printer that is a callable object, a
    functools.partial, a bound method or a lambda is contained like a failing function (the value alone falls back
    to its repr, a warning that identifies the printer is issued, pformat returns, at the top level too)."""
    import functools

    class CallablePrinter:
        def __call__(self, value, ctx):
            raise ValueError('boom')

    class Owner:
        def method_printer(self, value, ctx):
            raise KeyError('k')

    def with_extra(value, ctx, extra):
        raise TypeError('t')
    printers = {
        'callable object': (CallablePrinter(), 'CallablePrinter'),
        'functools.partial': (functools.partial(with_extra, extra=1), 'with_extra'),
        'bound method': (Owner().method_printer, 'method_printer'),
        'lambda': ((lambda value, ctx: 1 // 0), 'lambda'),
    }
    n = 0
    for kind, (printer, ident) in printers.items():
        cls = type('OddlyPrinted', (), {'__repr__': lambda self: 'ODD_REPR'})
        try:
            P.register_pretty(cls)(printer)
        except Exception as e:  # noqa
            chk.violation('C14.contained', 'register_pretty rejected a %s as a printer: %r' % (kind, e), {'printer': kind})
            continue
        for where, mk, want in (('top level', lambda: cls(), 'ODD_REPR'), ('list element', lambda: [1, cls(), 2], '[1, ODD_REPR, 2]'),
                                ('dict value', lambda: {'k': cls()}, "{'k': ODD_REPR}")):
            n += 1
            desc = {'printer': kind, 'position': where}
            try:
                with warnings.catch_warnings(record=True) as wl:
                    warnings.simplefilter('always')
                    with common.time_limit(20):
                        out = P.pformat(mk())
            except (Exception, common.Timeout) as e:  # noqa
                chk.violation('C14.contained', 'a failing printer that is a %s (%s) escaped from pformat as %r'
                              % (kind, where, e), desc)
                continue
            msgs = [str(w.message) for w in wl if 'raised an exception' in str(w.message)]
            if out != want:
                chk.violation('C14.others-unchanged', 'failing printer (%s) at %s: output %r, expected %r' % (kind, where, out, want),
                              dict(desc, output=out))
            if len(msgs) != 1 or ident not in msgs[0].split('\n')[0]:
                chk.violation('C14.warning', 'failing printer (%s) at %s: expected one warning identifying the printer (%s), got %r'
                              % (kind, where, ident, [m.split('\n')[0][:200] for m in msgs]), desc)
            chk.nontrivial(('odd-printer', kind, where))
        registry_cleanup(cls)
    # values whose repr is not their own: subclasses of dict / list / tuple that inherit __repr__ (insertion order
    # that is not sorted order, nested instances, a self-referential one) - 'rendered with its repr' means repr(value)
    def failing(value, ctx):
        raise RuntimeError('fails')

    class Table(dict):
        pass

    class Row(list):
        pass

    class Pt(tuple):
        pass
    for cls in (Table, Row, Pt):
        P.register_pretty(cls)(failing)
    selfref = Row([1])
    selfref.append(selfref)
    samples = [Table(zeta=1, alpha=2, mid=Table(b=1, a=2)), Row([Table(z=0, y=1), 3]), Pt((Table(q=1, p=2), 'x')), selfref,
               Table({2: 'b', 1: 'a', 'k': Row([3, 2, 1])})]
    for v in samples:
        for where, mk in (('top level', lambda: v), ('list element', lambda: [0, v]), ('dict value', lambda: {'k': v})):
            n += 1
            desc = {'value': repr(v), 'position': where}
            try:
                with warnings.catch_warnings(record=True) as wl:
                    warnings.simplefilter('always')
                    with common.time_limit(20):
                        out = P.pformat(mk(), width=200)
            except (Exception, common.Timeout) as e:  # noqa
                chk.violation('C14.contained', 'a failing printer for %r escaped from pformat as %r' % (v, e), desc)
                continue
            want = {'top level': repr(v), 'list element': '[0, %r]' % (v,), 'dict value': "{'k': %r}" % (v,)}[where]
            if out != want:
                chk.violation('C14.others-unchanged', 'failing printer for a %s instance (%s): output %r, expected its repr %r'
                              % (type(v).__name__, where, out, want), dict(desc, output=out))
            chk.nontrivial(('inherited-repr', repr(v), where))
    for cls in (Table, Row, Pt):
        registry_cleanup(cls)
    chk.cov['evaluations'] += n
    chk.stage('odd printers', executions=n)


def registry_cleanup(cls):
    from checks.registry import registry_dict
    registry_dict().pop(cls, None)
    PP.pretty_dispatch._clear_cache()


def pair_faults(chk, trees):
    """Two printer invocations fail in ONE pformat call (pairs sampled): each failing value is rendered with its
    repr and EACH gets a UserWarning naming the printer - also when both values have the same printer -, every other
    part is what it would have been, and a later call is unaffected."""
    q = chk.tier == 'quick'
    rng = chk.rng
    n = 0
    for g, r in trees:
        objs = build(g)
        root = objs[r - 1]

        def render(fault=0, also=(), always_set=(), exc=ValueError):
            Faults.inv, Faults.fault, Faults.also, Faults.always_set = 0, fault, tuple(also), tuple(always_set)
            Faults.exc, Faults.msg, Faults.hits, Faults.order = exc, 'boom', [], []
            try:
                with warnings.catch_warnings(record=True) as wl:
                    warnings.simplefilter('always')
                    with common.time_limit(20):
                        out = P.pformat(root, width=40)
            finally:
                ninv, hits, order = Faults.inv, list(Faults.hits), list(Faults.order)
                Faults.inv, Faults.fault, Faults.also, Faults.always_set, Faults.hits, Faults.order = 0, 0, (), (), None, None
            render.order = order
            return out, [str(w.message) for w in wl if 'raised an exception' in str(w.message)], ninv, hits
        try:
            base, w0, ninv, _ = render()
            base_order = render.order
        except (Exception, common.Timeout):  # noqa  (reported by the single-fault pass)
            continue
        if ninv < 2:
            continue
        pairs = [(i, j) for i in range(1, ninv + 1) for j in range(i + 1, ninv + 1)]
        for i, j in (rng.sample(pairs, min(len(pairs), 3 if q else 12))):
            exc = rng.choice(EXCS)
            desc = {'graph': g, 'faults': [i, j], 'exception': exc.__name__, 'baseline': base}
            n += 1
            try:
                out, wl, _, hits = render(i, also=(j,), exc=exc)
            except (Exception, common.Timeout) as e:  # noqa
                chk.violation('C14.contained', 'invocations #%d and #%d raising %s escaped from pformat as %r: graph=%r'
                              % (i, j, exc.__name__, e, g), desc)
                continue
            desc['output'] = out
            if not hits:
                continue
            ref = render(always_set=set(hits))[0]
            if len(wl) != len(hits):
                chk.violation('C14.warning', '%d printer invocations failed in one call (objects %r) but %d UserWarning(s) '
                              'naming the printer were issued: graph=%r output=%r' % (len(hits), hits, len(wl), g, out), desc)
            elif not all('pretty_u' in m or 'pretty_v' in m for m in wl):
                chk.violation('C14.warning', 'a warning does not name the failing printer: %r' % (wl,), desc)
            # (an object that is printed more than once - a shared node - fails at ONE of its occurrences only: the
            # all-occurrences reference does not apply)
            if all(base_order.count(h) == 1 for h in hits) and out != ref:
                chk.violation('C14.others-unchanged', 'with invocations #%d and #%d failing the output is not the fault-free '
                              'text with exactly the objects %r rendered as their repr: %r vs %r' % (i, j, hits, out, ref),
                              dict(desc, reference=ref))
            try:
                again = render()[0]
            except (Exception, common.Timeout) as e:  # noqa
                again = repr(e)
            if again != base:
                chk.violation('C14.later-calls', 'a fault-free print after two failures differs from the baseline: %r'
                              % (again,), desc)
            chk.nontrivial(('pair', repr(g), i, j))
    chk.cov['evaluations'] += n
    chk.stage('fault-pairs', executions=n)


class NonDoc:
    def __repr__(self):
        return 'NonDoc_repr'


@P.register_pretty(NonDoc)
def pretty_nondoc(value, ctx):
    return NonDoc.result


NonDoc.result = 42
# things a printer may wrongly return: truthy and falsy ones, containers, bytes, another Doc-less object
NON_DOC_RESULTS = [42, None, 0, 0.0, False, True, [], (), {}, set(), b'', b'x', ['x'], ('a',), {'k': 1}, 3.5, object(), NonDoc]


def non_doc_scenarios(chk):
    """A printer returning neither str nor Doc is reported with ValueError (raised by pformat,
    or named in the warning when an enclosing printer catches it)."""
    shared = NonDoc()
    for result in NON_DOC_RESULTS:
      NonDoc.result = result
      for name, v in (('top', NonDoc()), ('in-list', [1, NonDoc()]), ('in-dict', {'k': NonDoc()}),
                      ('shared', [[shared], shared])):
        name = '%s, printer returns %r' % (name, result)
        try:
            with warnings.catch_warnings(record=True) as wl:
                warnings.simplefilter('always')
                with common.time_limit(20):
                    out = P.pformat(v)
            msgs = ' '.join(str(w.message) for w in wl)
            if 'Recursion' in out:
                chk.violation('C14.non-doc', 'after a printer returned a non-Doc a later occurrence of the same object is '
                              'printed as a recursion marker: %r' % (out,), {'scenario': name})
            if 'ValueError' not in msgs or 'pretty_nondoc' not in msgs:
                chk.violation('C14.non-doc', 'a printer returning a non-Doc (%s) was not reported with ValueError: output %r, '
                              'warnings %r' % (name, out, msgs[:300]), {'scenario': name})
        except ValueError as e:
            if 'pretty_nondoc' not in str(e):
                chk.violation('C14.non-doc', 'ValueError does not name the printer: %r' % (e,), {'scenario': name})
        except (Exception, common.Timeout) as e:  # noqa
            chk.violation('C14.non-doc', 'a printer returning a non-Doc (%s) led to %r instead of ValueError' % (name, e),
                          {'scenario': name})
        chk.cov['evaluations'] += 1
