"""C20: concurrent printing. spec/RegistryThreads.tla (+Trace) and the deterministic
line-level scheduler of harness/sched.py."""
import os
import threading
import warnings

import common
import sched
import prettyprinter as P

PP = common.pp_module('prettyprinter.prettyprinter')
from checks.registry import registry_dict  # noqa



class Pristine:
    """The module-level mutable containers of the package (lists, dicts, sets, deques: tables that grow on demand,
    memo dicts, scratch buffers) as they were when this module was imported, i.e. before this process printed anything
    through the scenarios below. restore() puts their CONTENTS back, so that every schedule starts from the state of a
    fresh import - a race on the first growth of such a table happens once per process otherwise, and the sequential
    reference run would have used it up. The printer registries are left alone (the registry scenarios manage them)."""
    KEEP = {'_DEFERRED_DISPATCH_BY_NAME', '_PREDICATE_REGISTRY'}

    def __init__(self):
        import collections
        import copy
        import sys
        self.snap = []
        seen = set()
        for name, mod in list(sys.modules.items()):
            if mod is None or not (name == 'prettyprinter' or name.startswith('prettyprinter.')):
                continue
            for k, v in list(vars(mod).items()):
                if k.startswith('__') or k in self.KEEP or id(v) in seen:
                    continue
                if type(v) in (list, dict, set, collections.deque, bytearray, collections.OrderedDict, collections.defaultdict):
                    seen.add(id(v))
                    self.snap.append((name + '.' + k, v, copy.copy(v)))

    def restore(self):
        for _, obj, saved in self.snap:
            if isinstance(obj, dict):
                obj.clear()
                obj.update(saved)
            elif isinstance(obj, set):
                obj.clear()
                obj.update(saved)
            else:
                obj[:] = saved

    def names(self):
        return sorted(n for n, _, _ in self.snap)


PRISTINE = Pristine()

FUNCS = {'is_registered', 'decorator', 'pretty_python_value', 'get_deferred_key', 'register_pretty'}
EXPECTED = {'K': 1, 'KS': 1, 'R': 2, 'U': 0}

MC_CFG = """CONSTANTS NThreads = %d
 Locking = %s
 MaxJobs = %d
INIT Init
NEXT Next
INVARIANT Safe
INVARIANT MutualExclusion
INVARIANT LockConsistent
INVARIANT NoStuck
CHECK_DEADLOCK FALSE
"""
TRACE_CFG = """CONSTANTS NThreads = %d
 Locking = %s
 MaxJobs = 1
INIT TInit
NEXT TNext
INVARIANT Accepted
CHECK_DEADLOCK FALSE
"""
_n = [0]


def module_locks():
    kinds = (type(threading.Lock()), type(threading.RLock()))
    return [v for v in vars(PP).values() if isinstance(v, kinds)]


class Scenario:
    def __init__(self):
        _n[0] += 1
        mod = 'verif_thr_%d' % _n[0]
        ns = {'__module__': mod, '__repr__': lambda self: 'REPR'}
        K = type('K', (), dict(ns))
        KS = type('KS', (K,), dict(ns))
        R = type('R', (), dict(ns))
        U = type('U', (), dict(ns))
        self.cls = {'K': K, 'KS': KS, 'R': R, 'U': U}
        self.key = mod + '.K'
        P.register_pretty(self.key)(lambda v, ctx: 'P1')
        P.register_pretty(R)(lambda v, ctx: 'P2')

    def observe(self):
        return (self.key in PP._DEFERRED_DISPATCH_BY_NAME, self.cls['K'] in PP.pretty_dispatch.registry)

    def cleanup(self):
        rd = registry_dict()
        for k in self.cls.values():
            rd.pop(k, None)
        PP._DEFERRED_DISPATCH_BY_NAME.pop(self.key, None)
        PP.pretty_dispatch._clear_cache()

    def job(self, prog):
        def fn(ex, tid):
            out = []
            for c in prog:
                try:
                    with warnings.catch_warnings():
                        warnings.simplefilter('ignore')
                        text = P.pformat(self.cls[c]())
                    res = {'P1': 1, 'P2': 2, 'REPR': 0}.get(text, -2)
                except BaseException as e:  # noqa
                    res = -1
                    text = repr(e)
                ex.queue[tid].append({'t': tid + 1, 'ev': 'done', 'c': c, 'res': res, 'text': text[:80]})
                out.append(res)
            return out
        return fn


def run_schedule(progs, plan):
    sc = Scenario()
    try:
        ex = sched.Execution(len(progs), [PP.__file__], FUNCS, locks=module_locks(), observe=sc.observe)
        ex.run([sc.job(p) for p in progs], plan)
    finally:
        sc.cleanup()
    events = []
    for e in ex.events:
        if e['ev'] == 'state':
            (d0, r0), (d1, r1) = e['from'], e['to']
            if d0 and not d1:
                events.append({'t': e['t'] + 1, 'ev': 'pop', 'c': 'K', 'res': 0})
            if r1 and not r0:
                events.append({'t': e['t'] + 1, 'ev': 'reg', 'c': 'K', 'res': 0})
        else:
            events.append({'t': e['t'], 'ev': 'done', 'c': e['c'], 'res': e['res']})
    return ex, events


def model_check(chk, nthreads, maxjobs, locking):
    wd = os.path.join(chk.workdir, 'mc%d%s' % (nthreads, locking))
    r = common.run_tlc('RegistryThreads', MC_CFG % (nthreads, locking, maxjobs), wd, workers=common.NCPU,
                       heap='6g', deadlock=True)
    chk.add_tlc(r)
    return r


CALLS_CFG = """CONSTANTS Scoped = %s
 Table = %s
 Threads = %s
SPECIFICATION Spec
INVARIANT TypeOK
INVARIANT Safe
%sCHECK_DEADLOCK FALSE
"""


def calls_design_level(chk):
    """spec/CallsMC.tla: outside the dispatch path a call shares nothing but the interpreter-wide budget it only reads -
    Safe for all interleavings; with a scoped interpreter setting or a grow-on-demand module table TLC must find
    the interleaving that breaks Safe (design-level canaries)."""
    r = common.run_tlc('CallsMC', CALLS_CFG % ('FALSE', 'FALSE', '{1, 2, 3}', 'INVARIANT Restored\nINVARIANT TableOK\n'),
                       os.path.join(chk.workdir, 'calls0'), workers=4, heap='1g', deadlock=True)
    chk.add_tlc(r)
    chk.stage('tlc.model-check CallsMC', scoped=False, table=False, states=r.distinct, safe=not r.invariant_violated)
    if r.invariant_violated:
        tail = '\n'.join(r.out.splitlines()[-40:])
        chk.machinery_error('CallsMC (no shared state) violates an invariant\n' + tail)
    for scoped, table, threads in (('TRUE', 'FALSE', '{1, 2}'), ('FALSE', 'TRUE', '{1, 3}')):
        rc = common.run_tlc('CallsMC', CALLS_CFG % (scoped, table, threads, ''),
                            os.path.join(chk.workdir, 'calls' + scoped[0] + table[0]), workers=4, heap='1g', deadlock=True)
        chk.cov['canaries_total'] += 1
        if rc.invariant_violated and 'Invariant Safe is violated' in rc.out:
            chk.cov['canaries_rejected'] += 1
        else:
            chk.machinery_error('CallsMC with Scoped=%s Table=%s did not exhibit the interference' % (scoped, table))


LAYOUT_FUNCS = {'best_layout', 'smart_fitting_predicate', 'fast_fitting_predicate', 'normalize', 'when_broken',
                'when_flat', 'normalize_doc'}
CC_CFG = "INIT Init\nNEXT Next\nINVARIANT Report\nCHECK_DEADLOCK FALSE\n"


def layout_path_scenario(chk):
    """Two threads printing values that need line breaking, switched at line boundaries inside
    layout.py / doctypes.py (the engine keeps no shared state; a scratch buffer or cache
    introduced there must not leak between calls). Judged by spec/ConcurrentCalls.tla."""
    import prettyprinter.layout as LAY
    import prettyprinter.doctypes as DTY
    q = chk.tier == 'quick'
    wide = [[1, 2, 3], ['four', 'five'], {'k': (6, 7)}]
    small = [1, [2]]
    jobs = [(wide, 12), (small, 79), (wide, 30)]
    with warnings.catch_warnings():
        warnings.simplefilter('ignore')
        seq = [P.pformat(v, width=w) for v, w in jobs]
    texts = {t: i + 1 for i, t in enumerate(dict.fromkeys(seq))}

    def job(i):
        def fn():
            with warnings.catch_warnings():
                warnings.simplefilter('ignore')
                return P.pformat(jobs[i][0], width=jobs[i][1])
        return fn

    def got(r):
        return texts.get(r[1], 0) if r[0] == 'ok' else -1

    pairs = [(0, 1), (1, 0), (0, 2), (2, 0)]
    cases = []
    meta = {}
    import glob as _glob
    pkgdir = os.path.dirname(P.__file__)
    allfiles = _glob.glob(os.path.join(pkgdir, '*.py')) + _glob.glob(os.path.join(pkgdir, 'extras', '*.py'))
    # (layout engine only, line by line) and (every source line of the package, sampled)
    import prettyprinter.render as REN
    for files, pairs_ in (([LAY.__file__, DTY.__file__], pairs), ([REN.__file__], pairs[2:]), (allfiles, pairs[:2] if q else pairs)):
      for a, b in pairs_:
        PRISTINE.restore()
        _, _, nsteps = sched.run_with_preemption(job(a), job(b), None, files, locks=module_locks())
        stride = max(1, nsteps // (150 if q else 1500))
        for k in range(1, nsteps + 1, stride):
            PRISTINE.restore()       # every schedule starts from the module state of a fresh import
            ra, rb, _ = sched.run_with_preemption(job(a), job(b), k, files, locks=module_locks())
            calls = [{'t': 1, 'seq': texts[seq[a]], 'got': got(ra)}, {'t': 2, 'seq': texts[seq[b]], 'got': got(rb)}]
            cid = len(cases) + 1
            cases.append({'id': cid, 'calls': calls})
            meta[cid] = {'threads': ['pformat(%r, width=%d)' % jobs[a], 'pformat(%r, width=%d)' % jobs[b]],
                         'traced': {1: 'renderer', 2: 'layout engine'}.get(len(files), 'whole package'),
                         'thread_0_preempted_before_its_traced_line': k, 'results': [ra, rb]}
            chk.nontrivial(('lines', len(files), a, b, k))
    v, st = common.tlc_batch('ConcurrentCalls', CC_CFG, cases, os.path.join(chk.workdir, 'cc'), tags=('SAFE',),
                             min_per_shard=100)
    chk.add_model(st)
    nv = 0
    for c in cases:
        if c['id'] not in v['SAFE']:
            nv += 1
            chk.violation('C20.sequential', 'two concurrent pformat calls switched inside the layout engine: a call did not '
                          'return its sequential text / raised: %r' % (meta[c['id']],), meta[c['id']])
    chk.stage('layout-path schedules', executions=len(cases), violations=nv)
    chk.cov['traces_validated_against_impl'] += len(cases)
    return len(cases)


def nested(depth, leaf=0):
    v = [leaf]
    for _ in range(depth):
        v = [v]
    return v


def overlap_scenario(chk):
    """Call B is still in progress when call A returns (two preemptions): whatever a call sets up for its own
    duration (interpreter settings, module-level scratch state) and undoes on return must not be taken away from
    the other call. B prints, among others, deeply nested values: one the library prints, and one that exhausts the
    interpreter's recursion limit when printed alone - its sequential result is that exception, and stays it.
    Results are compared with those of the same calls made one after the other IN A THREAD (same stack budget).
    Judged by spec/ConcurrentCalls.tla."""
    import glob as _glob
    import re as _re
    q = chk.tier == 'quick'
    pkgdir = os.path.dirname(P.__file__)
    allfiles = _glob.glob(os.path.join(pkgdir, '*.py')) + _glob.glob(os.path.join(pkgdir, 'extras', '*.py'))
    jobs = {'short': ([1, {'k': (2, 3)}], {}), 'broken': ([[1, 2, 3], ['four', 'five'], {'k': (6, 7)}], {'width': 12}),
            'deep60': (nested(60), {}), 'deep150': (nested(150), {}), 'deep400': (nested(400), {'width': 30}),
            'wide': (tuple(range(5)) * 11, {'width': 200, 'ribbon_width': 200}),
            'sorted': ({'b': 1, 'a': [2, {'d': 3, 'c': 4}]}, {'sort_dict_keys': True, 'width': 10})}

    def job(name):
        def fn():
            with warnings.catch_warnings():
                warnings.simplefilter('ignore')
                return P.pformat(jobs[name][0], **jobs[name][1])
        return fn

    def outcome(r):
        return r[1] if r[0] == 'ok' else 'raised ' + _re.match(r'\w*', r[1]).group(0)

    import threading as _th
    seq = {}

    def sequential():
        for name in jobs:
            try:
                seq[name] = outcome(('ok', job(name)()))
            except BaseException as e:  # noqa
                seq[name] = outcome(('exc', repr(e)))
    t = _th.Thread(target=sequential)
    t.start()
    t.join()
    ids = {}
    for name in jobs:
        ids.setdefault(seq[name], len(ids) + 1)
    chk.cov['overlap_sequential_outcomes'] = {k: (v if v.startswith('raised') else 'text of %d lines' % (v.count('\n') + 1))
                                              for k, v in seq.items()}
    pairs = [('short', 'deep150'), ('short', 'deep60'), ('broken', 'deep400'), ('deep60', 'short'), ('deep150', 'broken'),
             ('wide', 'sorted'), ('sorted', 'wide'), ('short', 'wide'), ('broken', 'short')]
    if q:
        pairs = pairs[:6]
    cases, meta = [], {}
    for a, b in pairs:
        _, _, na, nb = sched.run_overlapped(job(a), job(b), None, None, allfiles)
        kas = sorted(set([1, 2, 3, 5, 8] + [max(1, na * i // (5 if q else 14)) for i in range(1, (5 if q else 14))] + [na - 1, na]))
        kbs = sorted(set([1, 4] + [max(1, nb * i // (3 if q else 6)) for i in range(1, (3 if q else 6))]))
        for ka in kas:
            for kb in kbs:
                PRISTINE.restore()
                ra, rb, _, _ = sched.run_overlapped(job(a), job(b), ka, kb, allfiles)
                cid = len(cases) + 1
                calls = [{'t': 1, 'seq': ids[seq[a]], 'got': ids.get(outcome(ra), 0 if ra[0] == 'ok' else -1)},
                         {'t': 2, 'seq': ids[seq[b]], 'got': ids.get(outcome(rb), 0 if rb[0] == 'ok' else -1)}]
                cases.append({'id': cid, 'calls': calls})
                meta[cid] = {'threads': ['pformat(<%s>, %r)' % (a, jobs[a][1]), 'pformat(<%s>, %r)' % (b, jobs[b][1])],
                             'schedule': 'A paused before its traced line %d, B started and paused before its line %d, A ran to '
                                         'its return, B resumed' % (ka, kb),
                             'sequential': [seq[a][:200], seq[b][:200]], 'results': [(ra[0], ra[1][:200]), (rb[0], rb[1][:200])]}
                chk.nontrivial(('overlap', a, b, ka, kb))
    v, st = common.tlc_batch('ConcurrentCalls', CC_CFG, cases, os.path.join(chk.workdir, 'ccov'), tags=('SAFE',),
                             min_per_shard=100)
    chk.add_model(st)
    nv = 0
    for c in cases:
        if c['id'] not in v['SAFE']:
            nv += 1
            chk.violation('C20.sequential', 'two overlapping pformat calls (B still running when A returns): a call did not '
                          'return its sequential result: %r' % (meta[c['id']],), meta[c['id']])
    chk.stage('overlapped-call schedules', executions=len(cases), violations=nv)
    chk.cov['traces_validated_against_impl'] += len(cases)
    return len(cases)


def registry_path_scenario(chk):
    """Line-level preemption over EVERY function of prettyprinter.py (not only the dispatch-path functions the
    step-wise scheduler traces): thread A is paused before its k-th line while thread B runs a whole print, for
    A / B drawn from {warm print of a directly registered type, warm print of an unregistered type, very first
    print of a lazily registered type, of a subclass of it, of ANOTHER lazily registered type}. A cache or table
    added anywhere on the print path that a registration invalidates shows up here. Judged by ConcurrentCalls.tla."""
    q = chk.tier == 'quick'
    text_id = {'P1': 1, 'P2': 2, 'REPR': 3, 'P3': 4}
    expected = {'K': 'P1', 'KS': 'P1', 'R': 'P2', 'U': 'REPR', 'K2': 'P3'}
    pairs = [('R', 'K'), ('U', 'K'), ('K', 'R'), ('K', 'U'), ('K', 'K2'), ('KS', 'K2'), ('R', 'KS'), ('U', 'K2'),
             ('K', 'K'), ('KS', 'K'), ('K', 'KS')]

    def fresh():
        sc = Scenario()
        K2 = type('K2', (), {'__module__': sc.key.rsplit('.', 1)[0], '__repr__': lambda self: 'REPR'})
        sc.cls['K2'] = K2
        sc.key2 = sc.key.rsplit('.', 1)[0] + '.K2'
        P.register_pretty(sc.key2)(lambda v, ctx: 'P3')
        with warnings.catch_warnings():
            warnings.simplefilter('ignore')
            P.pformat(sc.cls['R']())     # warm: these two have been printed before
            P.pformat(sc.cls['U']())
        return sc

    def drop(sc):
        PP._DEFERRED_DISPATCH_BY_NAME.pop(sc.key2, None)
        sc.cleanup()

    def job(sc, c):
        def fn():
            with warnings.catch_warnings():
                warnings.simplefilter('ignore')
                return P.pformat(sc.cls[c]())
        return fn

    def got(r):
        return text_id.get(r[1], 0) if r[0] == 'ok' else -1
    cases = []
    meta = {}
    for a, b in pairs:
        sc = fresh()
        try:
            _, _, nsteps = sched.run_with_preemption(job(sc, a), job(sc, b), None, [PP.__file__], locks=module_locks())
        finally:
            drop(sc)
        stride = max(1, nsteps // (120 if q else 2000))
        for k in range(1, nsteps + 1, stride):
            sc = fresh()
            try:
                ra, rb, _ = sched.run_with_preemption(job(sc, a), job(sc, b), k, [PP.__file__], locks=module_locks())
            finally:
                drop(sc)
            cid = len(cases) + 1
            cases.append({'id': cid, 'calls': [{'t': 1, 'seq': text_id[expected[a]], 'got': got(ra)},
                                               {'t': 2, 'seq': text_id[expected[b]], 'got': got(rb)}]})
            meta[cid] = {'threads': ['print of %s' % a, 'print of %s' % b], 'traced': 'every function of prettyprinter.py',
                         'kinds': 'K, K2: lazily registered, first print; KS: subclass of K; R: directly registered, '
                                  'printed before; U: unregistered, printed before',
                         'thread_0_preempted_before_its_traced_line': k, 'results': [ra, rb]}
            chk.nontrivial(('registry-lines', a, b, k))
    v, st = common.tlc_batch('ConcurrentCalls', CC_CFG, cases, os.path.join(chk.workdir, 'ccreg'), tags=('SAFE',),
                             min_per_shard=100)
    chk.add_model(st)
    nv = 0
    for c in cases:
        if c['id'] not in v['SAFE']:
            nv += 1
            chk.violation('C20.sequential', 'two concurrent prints switched at a line of prettyprinter.py: a call did not '
                          'return its sequential text / raised: %r' % (meta[c['id']],), meta[c['id']])
    chk.stage('registry-path schedules', executions=len(cases), violations=nv)
    chk.cov['traces_validated_against_impl'] += len(cases)
    return len(cases)


def predicate_path_scenario(chk):
    """A fourth kind of type: one printed through a PREDICATE registration whose printer prints a child (it passes
    through the base dispatch and, nested, through the whole dispatch path again), against first prints of lazily
    registered types. Every call must return (a lock-order inversion between two module locks shows up as two calls
    that never return). Runs LAST: threads left behind by a deadlock keep the module locks, after which no call
    into the package returns; the scenario stops at the first such schedule. Judged by ConcurrentCalls.tla."""
    q = chk.tier == 'quick'
    text_id = {'P1': 1, 'PBox(P2)': 2, 'P3': 3, 'PBox(P1)': 4}
    pairs = [('PB', 'K'), ('K', 'PB'), ('PB', 'K2'), ('PBK', 'K'), ('PB', 'PB')]
    expected = {'K': 'P1', 'K2': 'P3', 'PB': 'PBox(P2)', 'PBK': 'PBox(P1)'}

    class PBox:
        def __init__(self, child):
            self.child = child

        def __repr__(self):
            return 'REPR'

    def fresh():
        sc = Scenario()
        K2 = type('K2', (), {'__module__': sc.key.rsplit('.', 1)[0], '__repr__': lambda self: 'REPR'})
        sc.cls['K2'] = K2
        sc.key2 = sc.key.rsplit('.', 1)[0] + '.K2'
        P.register_pretty(sc.key2)(lambda v, ctx: 'P3')
        sc.npred = len(PP._PREDICATE_REGISTRY)
        P.register_pretty(predicate=lambda x: isinstance(x, PBox))(lambda v, ctx: P.pretty_call(ctx, 'PBox', v.child))
        with warnings.catch_warnings():
            warnings.simplefilter('ignore')
            P.pformat(sc.cls['R']())
        sc.make = {'K': lambda: sc.cls['K'](), 'K2': lambda: K2(), 'PB': lambda: PBox(sc.cls['R']()),
                   'PBK': lambda: PBox(sc.cls['K']())}
        return sc

    def drop(sc):
        PP._DEFERRED_DISPATCH_BY_NAME.pop(sc.key2, None)
        del PP._PREDICATE_REGISTRY[sc.npred:]
        sc.cleanup()

    def job(sc, c):
        def fn():
            with warnings.catch_warnings():
                warnings.simplefilter('ignore')
                return P.pformat(sc.make[c]())
        return fn

    def got(r):
        return text_id.get(r[1], 0) if r[0] == 'ok' else -1
    cases, meta = [], {}
    stuck = False
    for a, b in pairs:
        if stuck:
            break
        sc = fresh()
        try:
            _, _, nsteps = sched.run_with_preemption(job(sc, a), job(sc, b), None, [PP.__file__], locks=module_locks())
        finally:
            drop(sc)
        stride = max(1, nsteps // (60 if q else 1000))
        for k in range(1, nsteps + 1, stride):
            sc = fresh()
            ra, rb, _ = sched.run_with_preemption(job(sc, a), job(sc, b), k, [PP.__file__], locks=module_locks())
            cid = len(cases) + 1
            cases.append({'id': cid, 'calls': [{'t': 1, 'seq': text_id[expected[a]], 'got': got(ra)},
                                               {'t': 2, 'seq': text_id[expected[b]], 'got': got(rb)}]})
            meta[cid] = {'threads': ['print of %s' % a, 'print of %s' % b], 'traced': 'every function of prettyprinter.py',
                         'kinds': 'PB: printed through a predicate registration, prints a directly registered child; PBK: the '
                                  'same around a lazily registered child; K, K2: lazily registered, first print',
                         'thread_0_preempted_before_its_traced_line': k, 'results': [ra, rb]}
            chk.nontrivial(('predicate-lines', a, b, k))
            if 'did not finish' in ra[1] or 'did not finish' in rb[1]:
                stuck = True         # the threads (and the locks they hold) are lost: nothing more can be printed
                break
            drop(sc)
    v, st = common.tlc_batch('ConcurrentCalls', CC_CFG, cases, os.path.join(chk.workdir, 'ccpred'), tags=('SAFE',),
                             min_per_shard=100)
    chk.add_model(st)
    nv = 0
    for c in cases:
        if c['id'] not in v['SAFE']:
            nv += 1
            chk.violation('C20.sequential', 'two concurrent prints, one through a predicate-registered printer: a call did not '
                          'return its sequential text / never returned: %r' % (meta[c['id']],), meta[c['id']])
    chk.stage('predicate-path schedules', executions=len(cases), violations=nv, abandoned_after_deadlock=stuck)
    chk.cov['traces_validated_against_impl'] += len(cases)
    return len(cases)


def check_c20(chk, args):
    q = chk.tier == 'quick'
    locks = module_locks()
    locking = 'TRUE' if locks else 'FALSE'
    chk.cov['module_level_locks_found'] = len(locks)
    chk.cov['module_state_restored_before_each_schedule'] = PRISTINE.names()
    # --- model level
    r = model_check(chk, 2, 2, locking)
    chk.stage('tlc.model-check RegistryThreads', threads=2, jobs=2, locking=locking, states=r.distinct,
              transitions=r.generated, safe=not r.invariant_violated)
    if locks and r.invariant_violated:
        tail = '\n'.join(r.out.splitlines()[-40:])
        chk.violation('C20.model', 'RegistryThreads with Locking violates an invariant\n' + tail, {'tlc': tail})
    if not q:
        r3 = model_check(chk, 3, 1, locking)
        chk.stage('tlc.model-check RegistryThreads', threads=3, jobs=1, locking=locking, states=r3.distinct,
                  transitions=r3.generated, safe=not r3.invariant_violated)
    # sensitivity canary: without the lock TLC must find the race
    rc = model_check(chk, 2, 1, 'FALSE')
    chk.cov['canaries_total'] += 1
    if rc.invariant_violated and 'Invariant Safe is violated' in rc.out:
        chk.cov['canaries_rejected'] += 1
    else:
        chk.machinery_error('RegistryThreads with Locking = FALSE did not exhibit the race')
    # --- code level: systematic schedule exploration
    pairs = [(['K'], ['K']), (['K'], ['KS']), (['KS'], ['KS']), (['K'], ['R']), (['K'], ['U']),
             (['K', 'K'], ['KS']), (['KS', 'U'], ['K', 'R']), (['U', 'K'], ['R', 'KS'])]
    triples = [(['K'], ['K'], ['KS']), (['KS'], ['K'], ['U'])]
    traces = {2: [], 3: []}
    meta = {}
    tid = 0
    nsched = 0
    nblocked = 0
    for progs in pairs + (triples if not q else triples[:1]):
        n = len(progs)
        maxp = (1 if q else 2) if n == 2 else 1
        budget = None if (q or n == 2) else 400
        if not q and n == 2:
            budget = 700

        def make(plan, progs=progs):
            ex, ev = run_schedule(progs, plan)
            return ex, ev
        for plan, ex, ev in sched.explore(make, maxp, budget=budget, rng=chk.rng):
            nsched += 1
            tid += 1
            pre = sum(1 for s in ex.steps if s[2] == 'blocked')
            nblocked += 1 if pre else 0
            case = {'id': tid, 'progs': [list(p) for p in progs], 'events': ev}
            traces[n].append(case)
            meta[tid] = {'programs': [list(p) for p in progs], 'preemption_plan': list(plan),
                         'events': ev, 'results': ex.res, 'steps': len(ex.steps)}
            bad = [e for e in ev if e['ev'] == 'done' and e['res'] != EXPECTED[e['c']]]
            if plan:
                chk.nontrivial((tuple(map(tuple, progs)), plan))
    chk.stage('scheduler', executions=nsched, with_blocked_thread=nblocked)
    # --- verdicts by TLC
    nviol = ndrift = 0
    for n, cases in traces.items():
        if not cases:
            continue
        v, st = common.tlc_batch('RegistryThreadsTrace', TRACE_CFG % (n, locking), cases,
                                 os.path.join(chk.workdir, 'trace%d' % n), tags=('SAFE', 'ACCEPT'),
                                 min_per_shard=60)
        chk.add_model(st)
        for c in cases:
            m = meta[c['id']]
            if c['id'] not in v['SAFE']:
                nviol += 1
                wrong = [e for e in c['events'] if e['ev'] == 'done' and e['res'] != EXPECTED[e['c']]]
                chk.violation('C20.sequential', 'threads %r under preemption plan %r: call(s) %r did not return the '
                              'sequential result / raised' % (m['programs'], m['preemption_plan'], wrong), m)
            elif c['id'] not in v['ACCEPT']:
                ndrift += 1
                chk.drifted('schedule is not a behaviour of RegistryThreads(Locking=%s): %r plan %r events %r' % (
                    locking, m['programs'], m['preemption_plan'],
                    [(e['t'], e['ev'], e['res']) for e in c['events']]))
        chk.stage('tlc.validate', threads=n, traces=len(cases), states=st['distinct'])
    calls_design_level(chk)
    nsched += layout_path_scenario(chk)
    nsched += registry_path_scenario(chk)
    nsched += overlap_scenario(chk)
    nsched += predicate_path_scenario(chk)      # last: see its docstring
    chk.cov['evaluations'] = nsched
    chk.cov['traces_validated_against_impl'] += nsched
    chk.cov['rule'] = ('executions of 2-3 threads printing lazily registered / subclass / directly registered / '
                       'unregistered instances under every preemption plan with <= %d preemptions at package '
                       'line boundaries of the dispatch path (deterministic sys.settrace scheduler); non-trivial = '
                       'at least one preemption; distinct by (programs, plan)' % (1 if q else 2))
    for c in (traces[2][:3] + traces[3][:1]):
        chk.sample(meta[c['id']])
    chk.assumptions += ['threads switch only at line boundaries of prettyprinter.py functions %s' % sorted(FUNCS),
                        'functools.singledispatch register/dispatch are atomic at this granularity']
    chk.stage('verdict', violations=nviol, drift=ndrift)
