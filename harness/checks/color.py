"""C16: coloured output is the plain output plus well-nested styling.
spec/Color.tla (abstract rule + colour-stack algorithm), ColorMC (all small streams),
ColorTrace (what colored_render_to_stream really wrote, decoded)."""
import io
import itertools
import os
import re
import warnings

import colorful
from pygments.style import Style
from pygments.styles import get_all_styles, get_style_by_name
from pygments import token as PT

import common
import prettyprinter as P
from prettyprinter import color as COLOR
from prettyprinter.render import default_render_to_str
from prettyprinter.sdoctypes import SLine, SAnnotationPush, SAnnotationPop
from prettyprinter.syntax import Token

PP = common.pp_module('prettyprinter.prettyprinter')
MC_CFG = "CONSTANT MaxLen = %d\nINIT Init\nNEXT Next\nINVARIANT Refines\nCHECK_DEADLOCK FALSE\n"
TRACE_CFG = "INIT Init\nNEXT Next\nINVARIANT Report\nCHECK_DEADLOCK FALSE\n"
SGR = re.compile(r'\x1b\[([0-9;]*)m')
DEFAULT = (None, None, False, False, False)


def decode(text):
    """Trusted SGR state machine: returns ([(code point, attrs)], final attrs)."""
    fg = bg = None
    bold = italic = under = False
    out = []
    pos = 0
    for m in SGR.finditer(text):
        for ch in text[pos:m.start()]:
            out.append((ord(ch), (fg, bg, bold, italic, under)))
        pos = m.end()
        params = [int(x) if x else 0 for x in m.group(1).split(';')] if m.group(1) != '' else [0]
        i = 0
        while i < len(params):
            p = params[i]
            if p == 0:
                fg = bg = None
                bold = italic = under = False
            elif p == 1:
                bold = True
            elif p == 3:
                italic = True
            elif p == 4:
                under = True
            elif p in (38, 48) and i + 4 < len(params) + 0 and params[i + 1] == 2:
                rgb = tuple(params[i + 2:i + 5])
                if p == 38:
                    fg = rgb
                else:
                    bg = rgb
                i += 4
            else:
                raise ValueError('unexpected SGR parameter %r in %r' % (p, m.group(0)))
            i += 1
    if '\x1b' in text[pos:]:
        raise ValueError('undecodable escape')
    for ch in text[pos:]:
        out.append((ord(ch), (fg, bg, bold, italic, under)))
    return out, (fg, bg, bold, italic, under)


def hex_rgb(h):
    if not h:
        return None
    h = h.lstrip('#')
    if len(h) == 3:
        h = ''.join(c * 2 for c in h)
    return (int(h[0:2], 16), int(h[2:4], 16), int(h[4:6], 16))


def token_attrs(style, tok):
    a = style.style_for_token(COLOR._SYNTAX_TOKEN_TO_PYGMENTS_TOKEN[tok])
    return (hex_rgb(a['color']), hex_rgb(a['bgcolor']), bool(a['bold']), bool(a['italic']), bool(a['underline']))


class Ids:
    def __init__(self):
        self.ids = {DEFAULT: 0}

    def __call__(self, attrs):
        return self.ids.setdefault(attrs, len(self.ids))


def synthetic_styles():
    """Styles whose tokens cover all 32 combinations of (fg, bg, bold, italic, underline)."""
    combos = list(itertools.product([False, True], repeat=5))
    toks = list(Token)
    styles = []
    for start in range(0, len(combos), 11):
        defs = {}
        for i, (fg, bg, b, it, u) in enumerate(combos[start:start + 11]):
            spec = []
            if fg:
                spec.append('#%02x%02x%02x' % (10 + i, 20 + start, 30))
            if bg:
                spec.append('bg:#%02x%02x%02x' % (40, 50 + i, 60 + start))
            if b:
                spec.append('bold')
            if it:
                spec.append('italic')
            if u:
                spec.append('underline')
            defs[COLOR._SYNTAX_TOKEN_TO_PYGMENTS_TOKEN[toks[i]]] = ' '.join(spec)
        styles.append(type('Synthetic%d' % start, (Style,), {'styles': defs}))
    return styles


def random_annotated_doc(rng, depth=0):
    """A choice-free document (text, HARDLINE, nest, annotate, concat) together with the stream it DENOTES: the
    expected styling is read off the document, not off whatever stream the layout engine produces for it.
    Returns (doc, ideal(indent) -> list of SDocs)."""
    from prettyprinter.doc import concat, nest, annotate, HARDLINE
    r = rng.random()
    if depth >= 4 or r < 0.25:
        t = rng.choice(['a', 'bb', 'c ', 'x y', 'Z'])
        return t, (lambda ind, t=t: [t])
    if r < 0.55:
        v = rng.choice(list(Token)) if rng.random() < 0.8 else rng.choice(['other', 17, ('x',)])
        d, f = random_annotated_doc(rng, depth + 1)
        return annotate(v, d), (lambda ind, v=v, f=f: [SAnnotationPush(v)] + f(ind) + [SAnnotationPop(v)])
    if r < 0.7:
        d, f = random_annotated_doc(rng, depth + 1)
        return nest(2, d), (lambda ind, f=f: f(ind + 2))
    parts = [random_annotated_doc(rng, depth + 1) for _ in range(rng.choice([2, 2, 3]))]
    docs, fs = [], []
    for i, (d, f) in enumerate(parts):
        if i and rng.random() < 0.6:
            docs.append(HARDLINE)
            fs.append(lambda ind: [SLine(ind)])
        docs.append(d)
        fs.append(f)
    return concat(docs), (lambda ind, fs=fs: [x for f in fs for x in f(ind)])


def stream_case(cid, sdocs, style, ids, desc, rendered=None):
    """Render a list of SDocs with the coloured renderer; build the ColorTrace case. `rendered`: the stream that is
    actually rendered when it is not `sdocs` itself (sdocs is then the ground truth the document denotes)."""
    buf = io.StringIO()
    try:
        with common.time_limit(20):
            COLOR.colored_render_to_stream(buf, list(sdocs if rendered is None else rendered), style=style)
    except (Exception, common.Timeout) as e:  # noqa
        return None, e
    text = buf.getvalue()
    chars, final = decode(text)
    st = []
    for s in sdocs:
        if isinstance(s, str):
            st.append({'k': 't', 's': [ord(c) for c in s], 'n': 0, 'tok': 0})
        elif isinstance(s, SLine):
            st.append({'k': 'nl', 's': [], 'n': s.indent, 'tok': 0})
        elif isinstance(s, (SAnnotationPush, SAnnotationPop)):
            tok = int(s.value) if isinstance(s.value, Token) else 0
            st.append({'k': 'push' if isinstance(s, SAnnotationPush) else 'pop', 's': [], 'n': 0, 'tok': tok})
    table = [ids(token_attrs(style, t)) for t in Token]
    plain = default_render_to_str(list(sdocs))
    case = {'id': cid, 'st': st, 'style': table, 'chars': [[c, ids(a)] for c, a in chars], 'final': ids(final),
            'plain': [ord(c) for c in plain]}
    return case, None


def random_stream(rng, n):
    out = []
    stack = []
    toks = list(Token)
    for _ in range(n):
        r = rng.random()
        if r < 0.35:
            out.append(rng.choice(['a', 'bb', ' ', 'c ', '  ', 'x y']))
        elif r < 0.45:
            out.append(SLine(rng.choice([0, 2, 4])))
        elif r < 0.75 and len(stack) < 4:
            v = rng.choice(toks) if rng.random() < 0.7 else rng.choice(['other', 17, ('x',)])
            stack.append(v)
            out.append(SAnnotationPush(v))
        elif stack:
            out.append(SAnnotationPop(stack.pop()))
    while stack:
        out.append(SAnnotationPop(stack.pop()))
    return out


def all_styles():
    styles = [('dark', COLOR.default_dark_style), ('light', COLOR.default_light_style)]
    for name in sorted(get_all_styles()):
        try:
            styles.append((name, get_style_by_name(name)))
        except Exception:
            pass
    return styles


def check_c16(chk, args):
    q = chk.tier == 'quick'
    rng = chk.rng
    # token table
    for t in Token:
        if t not in COLOR._SYNTAX_TOKEN_TO_PYGMENTS_TOKEN:
            chk.violation('C16.token-table', 'syntax token %r has no style mapping' % (t,), {'token': str(t)})
    # model level
    r = common.run_tlc('ColorMC', MC_CFG % (5 if q else 8), os.path.join(chk.workdir, 'mc'), workers=common.NCPU, heap='8g')
    chk.add_tlc(r)
    if r.invariant_violated:
        tail = '\n'.join(r.out.splitlines()[-30:])
        chk.violation('C16.model', 'ColorMC: the colour-stack algorithm violates the abstract styling rule\n' + tail, {'tlc': tail})
    elif not r.ok:
        raise common.MachineryError('ColorMC failed:\n' + '\n'.join(r.out.splitlines()[-30:]))
    chk.stage('tlc.model-check ColorMC', streams=r.distinct, exhaustive=True, wall=round(r.wall, 1))
    mode = colorful.colorful.colormode
    colorful.use_true_colors()
    cases = []
    meta = {}
    ids = Ids()
    try:
        syn = synthetic_styles()
        styles = all_styles()
        # (a) synthetic annotated streams x synthetic styles
        for i in range(400 if q else 8000):
            sd = random_stream(rng, rng.randint(1, 12))
            style = rng.choice(syn + [s for _, s in styles[:4]])
            cid = len(cases) + 1
            desc = {'stream': [x if isinstance(x, str) else repr(x) for x in sd], 'style': style.__name__}
            case, err = stream_case(cid, sd, style, ids, desc)
            if err is not None:
                chk.violation('C16.raises', 'rendering %r with style %s raised %r' % (desc['stream'], style.__name__, err), desc)
                continue
            cases.append(case)
            meta[cid] = desc
            chk.nontrivial(('syn', tuple(desc['stream']), style.__name__))
        # (a') annotated DOCUMENTS (tokens nested up to depth 4 around text and hard line breaks) laid out by the real
        # engine: the styling expected is the one the document denotes
        from prettyprinter.layout import layout_smart
        for i in range(300 if q else 6000):
            doc, ideal = random_annotated_doc(rng)
            if isinstance(doc, str):
                continue
            style = rng.choice(syn + [s for _, s in styles[:4]])
            cid = len(cases) + 1
            truth = ideal(0)
            desc = {'document_denotes': [x if isinstance(x, str) else repr(x) for x in truth], 'style': style.__name__}
            try:
                real = list(layout_smart(doc, width=rng.choice([10, 40]), ribbon_frac=1.0))
            except Exception as e:  # noqa
                chk.violation('C16.raises', 'layout of an annotated document raised %r: %r' % (e, desc), desc)
                continue
            desc['stream'] = [x if isinstance(x, str) else repr(x) for x in real]
            case, err = stream_case(cid, truth, style, ids, desc, rendered=real)
            if err is not None:
                chk.violation('C16.raises', 'rendering %r with style %s raised %r' % (desc['stream'], style.__name__, err), desc)
                continue
            cases.append(case)
            meta[cid] = desc
            chk.nontrivial(('doc', tuple(desc['stream']), style.__name__))
        # (b) cpprint of real values x every style
        import values
        from checks import comments as CM
        vals = [values.random_value(rng, depth=rng.choice([1, 2, 3])) for _ in range(12 if q else 150)]
        vals += ['str with\nescapes\t\x00 and "quotes"', b'bytes \xff', {'k': P.comment([1, 2.5, None, True], 'a comment'),
                                                                         'j': P.trailing_comment([1], 'trailing')},
                 [float('inf'), -1, ...], CM.G(1, k='v'), {1: 'long string value ' * 8}]
        for name, style in styles:
            for v in (vals if not q else rng.sample(vals, 6) + vals[-6:]):
                w = rng.choice([20, 40, 79])
                desc = {'value': repr(v)[:200], 'style': name, 'width': w}
                try:
                    with warnings.catch_warnings():
                        warnings.simplefilter('ignore')
                        sd = list(P.python_to_sdocs(v, indent=4, width=w, depth=None, ribbon_width=w, max_seq_len=1000,
                                                    sort_dict_keys=False))
                except Exception:
                    continue
                cid = len(cases) + 1
                case, err = stream_case(cid, sd, style, ids, desc)
                if err is not None:
                    chk.violation('C16.raises', 'cpprint of %.100r with the pygments style %r raised %r' % (v, name, err), desc)
                    continue
                cases.append(case)
                meta[cid] = desc
                chk.nontrivial(('val', desc['value'], name))
        # (c) the coloured entry point end to end: cpprint(v, **cfg) with the styling removed is pformat(v, **cfg) + end,
        #     for every configuration (explicit / defaulted width, ribbon_width, indent, depth, max_seq_len, sort_dict_keys)
        import prettyprinter as PP
        n_entry = 0
        evals = vals if not q else rng.sample(vals, 6) + vals[-6:]
        for v in evals:
            for _ in range(6 if q else 12):
                cfg = {}
                if rng.random() < 0.8:
                    cfg['width'] = rng.choice([10, 20, 40, 72, 79, 100, 120])
                if rng.random() < 0.6:
                    cfg['ribbon_width'] = rng.choice([8, 15, 30, 50, 71, 90])
                if rng.random() < 0.3:
                    cfg['indent'] = rng.choice([1, 2, 8])
                if rng.random() < 0.3:
                    cfg['depth'] = rng.choice([1, 2, 3])
                if rng.random() < 0.3:
                    cfg['max_seq_len'] = rng.choice([1, 2, 5])
                if rng.random() < 0.3:
                    cfg['sort_dict_keys'] = rng.choice([True, False])
                name, style = rng.choice(styles)
                desc = {'value': repr(v)[:200], 'style': name, 'config': cfg, 'entry': 'cpprint'}
                try:
                    with warnings.catch_warnings():
                        warnings.simplefilter('ignore')
                        with common.time_limit(20):
                            plain = PP.pformat(v, **cfg)
                except (Exception, common.Timeout):
                    continue
                buf = io.StringIO()
                try:
                    with warnings.catch_warnings():
                        warnings.simplefilter('ignore')
                        with common.time_limit(20):
                            PP.cpprint(v, stream=buf, style=style, end='<E>', **cfg)
                    chars, final = decode(buf.getvalue())
                except (Exception, common.Timeout) as e:  # noqa
                    chk.violation('C16.raises', 'cpprint(%.100r, %r) raised %r although pformat succeeds' % (v, cfg, e), desc)
                    continue
                n_entry += 1
                chk.nontrivial(('entry', desc['value'], tuple(sorted(cfg.items()))))
                stripped = ''.join(chr(c) for c, _ in chars)
                if stripped != plain + '<E>':
                    desc['plain'] = plain[:400]
                    desc['stripped'] = stripped[:400]
                    chk.violation('C16.strip-entry', 'cpprint(%.100r, %r) with the styling removed is not pformat(...) + end'
                                  % (v, cfg), desc)
        chk.cov['entry_point_renderings'] = n_entry
    finally:
        colorful.colorful.colormode = mode
    can = []
    for c in cases:
        if len(can) >= 15:
            break
        styled = [i for i, (ch, s) in enumerate(c['chars']) if s != 0]
        if styled:
            k = dict(c)
            k['id'] = 10 ** 6 + len(can)
            k['chars'] = [list(x) for x in c['chars']]
            k['chars'][styled[0]][1] = 0
            can.append(k)
    v, st = common.tlc_batch('ColorTrace', TRACE_CFG, cases + can, os.path.join(chk.workdir, 'trace'), tags=('DONE',),
                             min_per_shard=120, heap='2g')
    chk.add_model(st)
    chk.cov['canaries_total'] = len(can)
    for k in can:
        if v['DONE'][k['id']][0][2][1]:
            chk.cov['canaries_rejected'] += 1
        else:
            chk.machinery_error('canary accepted (a styled character shown unstyled)')
    nv = nd = 0
    for c in cases:
        bad = v['DONE'][c['id']][0][2][1]
        drift = v['DONE'][c['id']][0][3]
        if bad:
            nv += 1
            chk.violation(sorted(bad)[0], 'clauses %s fail for %r' % (sorted(bad), meta[c['id']]), meta[c['id']])
        if drift:
            nd += 1
            chk.drifted('Color.tla colour-stack model differs from what was written for %r' % (meta[c['id']],))
    chk.cov['evaluations'] = len(cases)
    chk.cov['traces_validated_against_impl'] = len(cases)
    chk.cov['rule'] = ('(a) random well-nested annotated SDoc streams (token / non-token annotations nested up to 4, texts '
                       'incl. blank-only, line breaks) rendered with synthetic styles covering all 32 combinations of fg, '
                       'bg, bold, italic, underline; (b) the SDoc streams of real values (strings with escapes, commented '
                       'values, calls) rendered with every pygments style installed plus the two bundled ones; colour '
                       'forced on with colorful.use_true_colors(); the written bytes are decoded by an SGR state machine '
                       'and judged by TLC against Color!SpecChars; (c) cpprint end to end under random configurations (width, ribbon_width, '
                       'indent, depth, max_seq_len, sort_dict_keys given or defaulted) with the styling removed by the same decoder '
                       'equals pformat under the same configuration + end; distinct by (stream or value, style / configuration)')
    for c in cases[:2] + cases[-2:]:
        chk.sample(meta[c['id']])
    chk.assumptions += ['the SGR decoder (24-bit colours, reset, bold, italic, underline) is trusted',
                        'colour output is forced with colorful.use_true_colors()']
    chk.stage('tlc.validate', renderings=len(cases), rejected=nv, drift=nd, states=st['distinct'])
