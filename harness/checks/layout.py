"""C04 / C05 / C06: the layout engine, decided by spec/LayoutSpec.tla (abstract)
and bound to spec/LayoutImpl.tla (concrete)."""
import itertools
import os
import time

import common
import layoutgen as G

CFG = "INIT Init\nNEXT Next\nINVARIANT Report\nINVARIANT Progress\nCHECK_DEADLOCK FALSE\n"
CFG_MC = ("INIT Init\nNEXT Next\nINVARIANT ColOK\nINVARIANT ModesOK\nINVARIANT NormShrinks\n"
          "INVARIANT Done\nPROPERTY Decreasing\nCHECK_DEADLOCK FALSE\n")
NEXT_LINE = 'forced-break-on-following-line'
HLF = 'hardline-in-flat-group'


def has_choice(t):
    if t[0] in ('line', 'soft', 'fc', 'fill'):
        return True
    return any(has_choice(x) for x in t[1:] if isinstance(x, tuple))


class Universe:
    """Builds cases from terms; remembers the term of every case."""

    def __init__(self, chk, cid=0):
        self.chk = chk
        self.cases = []
        self.meta = {}
        self.cid = cid
        self.construct_failures = []
        self.layout_failures = []
        self.skipped_negative = 0

    def add_term(self, t, configs, strategies=(True, False), model=True, **flags):
        try:
            d = G.build(t)
        except Exception as e:  # "for every document built from the public combinators"
            self.construct_failures.append((t, repr(e)))
            return
        for (W, fn, fd) in configs:
            for smart in strategies:
                self.cid += 1
                try:
                    case, stream = G.layout_case(self.cid, t, d, W, fn, fd, smart, model=model, **flags)
                except Exception as e:
                    self.layout_failures.append((t, W, fn, fd, smart, repr(e)))
                    continue
                if any(isinstance(x, G.SLine) and x.indent < 0 for x in stream):
                    # the enclosing nest offsets sum to a negative indentation at a line break
                    # (dedent past the left margin): outside the domain the properties speak about
                    self.skipped_negative += 1
                    continue
                self.cases.append(case)
                self.meta[self.cid] = {'term': t, 'W': W, 'ribbon_frac': [fn, fd], 'smart': smart,
                                       'stream': [s if isinstance(s, str) else repr(s) for s in stream]}


def describe(meta):
    return 'doc=%r width=%d ribbon_frac=%d/%d strategy=%s stream=%r' % (
        meta['term'], meta['W'], meta['ribbon_frac'][0], meta['ribbon_frac'][1],
        'smart' if meta['smart'] else 'fast', meta['stream'])


def universe_parts(chk, classic, quick_sizes, thorough_sizes, n_random, n_big, flags, max_cases=None):
    """The universe of (document, width, ribbon, strategy) cases, generated in PARTS of bounded size: the whole
    thorough universe (millions of cases with their node tables, streams and verdict lines) does not fit in memory.
    Case ids run on across the parts."""
    tier_q = chk.tier == 'quick'
    if max_cases is None:
        max_cases = int(os.environ.get('VERIF_LAYOUT_PART', 10 ** 9 if tier_q else 150000))
    texts = G.TEXTS_FULL
    memo = {}
    box = {'u': Universe(chk)}
    tot = {'cases': 0}

    def full():
        return len(box['u'].cases) >= max_cases

    def flush():
        u = box['u']
        tot['cases'] += len(u.cases)
        box['u'] = Universe(chk, cid=u.cid)
        return u
    configs = G.CONFIGS_QUICK if tier_q else G.CONFIGS_THOROUGH
    exhaustive_to = quick_sizes if tier_q else thorough_sizes
    nterms = 0
    for n in range(1, exhaustive_to + 1):
        # the full text alphabet for the smallest sizes, two texts beyond
        tx = texts if n <= 3 else G.TEXTS_SMALL
        # thorough tier: the largest size has 10^5 .. 10^6 documents - every one of them, under a few configurations
        ncfg = configs if (tier_q or n < exhaustive_to) else (G.CONFIGS_QUICK if not classic else [(5, 3, 4), (12, 1, 4)])
        for t in G.enum_terms(n, classic, tx, memo if tx is G.TEXTS_SMALL else None):
            box['u'].add_term(t, ncfg, **flags)
            nterms += 1
            if full():
                yield flush()
    chk.stage('universe.exhaustive', terms=nterms, max_nodes=exhaustive_to, cases=tot['cases'] + len(box['u'].cases))
    k0 = tot['cases'] + len(box['u'].cases)
    st = G.structured_terms(classic)
    scfg = [c for c in configs if c[0] <= 12][:6] if tier_q else [c for c in configs if c[0] in (1, 3, 4, 5, 6, 7, 12, 40)]
    for t in st:
        box['u'].add_term(t, scfg, **flags)
        if full():
            yield flush()
    chk.stage('universe.structured', terms=len(st), cases=tot['cases'] + len(box['u'].cases) - k0)
    rng = chk.rng
    k0 = tot['cases'] + len(box['u'].cases)
    for i in range(n_random):
        t = G.random_term(rng, rng.randint(exhaustive_to + 1, 14), classic)
        cfgs = rng.sample(configs, min(3, len(configs)))
        box['u'].add_term(t, cfgs, **flags)
        if full():
            yield flush()
    chk.stage('universe.random', terms=n_random, cases=tot['cases'] + len(box['u'].cases) - k0)
    k0 = tot['cases'] + len(box['u'].cases)
    for i in range(n_big):
        t = G.random_term(rng, rng.randint(20, 120), classic, texts=['a', 'bb', 'ccc', 'c ', ''])
        cfgs = [(rng.choice([8, 16, 24, 40]), *rng.choice([(1, 1), (3, 4), (1, 2)]))]
        box['u'].add_term(t, cfgs, model=False, **flags)
    chk.stage('universe.big', terms=n_big, cases=tot['cases'] + len(box['u'].cases) - k0)
    yield flush()


def build_universe(chk, classic, quick_sizes, thorough_sizes, n_random, n_big, flags):
    """The whole universe as one object (callers with small universes)."""
    parts = list(universe_parts(chk, classic, quick_sizes, thorough_sizes, n_random, n_big, flags, max_cases=10 ** 9))
    assert len(parts) == 1
    return parts[0]


def canaries(u, chk, n=40):
    """Deliberately corrupted observations; every one of them must be rejected."""
    out = []
    rng = chk.rng
    pool = [c for c in u.cases if any(o['k'] == 't' for o in c['obs'])]
    for c in rng.sample(pool, min(n, len(pool))):
        k = dict(c)
        obs = list(c['obs'])
        idx = rng.choice([i for i, o in enumerate(obs) if o['k'] == 't'])
        rt = repr(u.meta[c['id']]['term'])
        if "'fc'" in rt or "'line'" in rt:
            # flat_choice alternatives (LINE = ' ' or a newline is one) may differ by exactly one fragment, so a
            # dropped or duplicated fragment can be another legitimate layout (run #4, seed 3: dropping the ' ' of a
            # flat LINE after a broken SOFTLINE); a text that occurs nowhere in the document never is
            obs.insert(idx, dict(obs[idx], t=987654, n=3, r=3))
            why = 'foreign text fragment inserted'
        elif rng.random() < 0.5:
            del obs[idx]
            why = 'text fragment dropped'
        else:
            obs.insert(idx, dict(obs[idx]))
            why = 'text fragment duplicated'
        k['obs'] = obs
        k['model'] = False
        k['term'] = []
        u.cid += 1
        k['id'] = u.cid
        k['canary'] = why
        out.append(k)
    return out


def fixed_canaries(u):
    """Hand-made canaries for the C05 / C06 clauses and the choice/indent clauses."""
    out = []

    def mk(t, W, obs, why, **flags):
        nodes, root = G.table(t)
        u.cid += 1
        c = {'id': u.cid, 'W': W, 'fn': 1, 'fd': 1, 'smart': True, 'nodes': nodes, 'root': root,
             'obs': obs, 'ctxt': [], 'model': False, 'term': [], 'c05': False, 'c06': False,
             'strict': True, 'diag': False, 'rnl': False, 'canary': why}
        c.update(flags)
        out.append(c)

    def T(s):
        return {'k': 't', 'n': len(s), 't': G.TID(s), 'a': 0, 'r': len(s.rstrip())}

    def NL(i):
        return {'k': 'nl', 'n': i, 't': 0, 'a': 0, 'r': 0}

    g = ('grp', ('cat', ('t', 'a'), ('line',), ('t', 'bb')))
    mk(g, 3, [T('a'), T(' '), T('bb')], 'flat group overflowing the page (C05)', c05=True)
    mk(g, 10, [T('a'), NL(0), T('bb')], 'group broken although it fits (C06)', c06=True)
    mk(('nest', 2, g), 1, [T('a'), NL(3), T('bb')], 'indent off by one (C04.indent)')
    mk(('cat', ('t', 'a'), ('line',), ('t', 'bb')), 40, [T('a'), T(' '), T('bb')],
       'flat alternative shown in break mode (C04.choice)')
    mk(('grp', ('cat', ('t', 'a'), ('line',), ('ab', ('t', 'bb')))), 40, [T('a'), T(' '), T('bb')],
       'always_break inside a flat group (C04.forced)')
    mk(('ann', 7, ('t', 'a')), 40, [T('a')], 'annotation push/pop missing (C04.annot)')
    return out


def validate(chk, u, extra_cases, workname):
    """Run LayoutSpec over the cases. Returns (accepted ids -> list of (src, used)), drift ids, stats)."""
    cases = u.cases + extra_cases
    v, st = common.tlc_batch('LayoutSpec', CFG, cases, os.path.join(chk.workdir, workname),
                             tags=('ACCEPT', 'DRIFT', 'POS'), min_per_shard=400)
    chk.add_model(st)
    return v, st


def judge_core(chk, u, prop, flags_on, part=0):
    """Common acceptance procedure.

    flags_on: the clause flags of the property under test (e.g. {'c05': True}).
    Returns dict with counts.
    """
    can = canaries(u, chk, n=40 if part == 0 else 6) + (fixed_canaries(u) if part == 0 else [])
    v, st = validate(chk, u, can, 'main%d' % part)
    acc = v['ACCEPT']
    chk.stage('tlc.validate', part=part, traces=len(u.cases), canaries=len(can), states=st['distinct'],
              transitions=st['generated'], wall=round(st['wall'], 1), jvms=st['runs'])
    # canaries
    chk.cov['canaries_total'] = chk.cov.get('canaries_total', 0) + len(can)
    for c in can:
        if c['id'] in acc:
            chk.machinery_error('canary accepted by LayoutSpec: %s' % c['canary'])
        else:
            chk.cov['canaries_rejected'] += 1
    # drift
    for cid, payload in v['DRIFT'].items():
        m = u.meta.get(cid)
        if m:
            chk.drifted('LayoutImpl predicts a different stream: ' + describe(m), m)
    rejected = [c for c in u.cases if not any(a[2] == 'obs' for a in acc.get(c['id'], []))]
    return acc, rejected


def rerun(chk, cases, name, **flags):
    out = []
    for c in cases:
        k = dict(c)
        k.update(flags)
        out.append(k)
    v, st = common.tlc_batch('LayoutSpec', CFG, out, os.path.join(chk.workdir, name),
                             tags=('ACCEPT', 'POS'), min_per_shard=100)
    chk.add_model(st)
    return v


def longest_prefix(v, cid):
    ps = [p[3] for p in v['POS'].get(cid, []) if p[2] == 'obs']
    return (max(ps) - 1) if ps else 0


def run_mc(chk, u, limit):
    """Step-wise model checking of the concrete engine on the exhaustive part of the universe."""
    seen = set()
    cases = []
    for c in u.cases:
        if not c['model']:
            continue
        cases.append({'id': c['id'], 'W': c['W'], 'fn': c['fn'], 'fd': c['fd'], 'smart': c['smart'],
                      'term': c['term']})
        if len(cases) >= limit:
            break
    wd = os.path.join(chk.workdir, 'mc')
    os.makedirs(wd, exist_ok=True)
    cf = os.path.join(wd, 'cases.ndjson')
    common.write_ndjson(cf, cases)
    r = common.run_tlc('LayoutImplMC', CFG_MC, wd, env={'CASES': cf}, workers=common.NCPU, heap='6g',
                       extra=['-coverage', '1'] if chk.tier == 'thorough' else [])
    if not r.ok:
        tail = '\n'.join(r.out.splitlines()[-30:])
        if r.invariant_violated or 'violated' in r.out:
            chk.violation('C12.layout-ranking', 'LayoutImplMC: an invariant/ranking property of the concrete '
                          'engine fails\n' + tail, {'tlc_tail': tail})
        else:
            raise common.MachineryError('LayoutImplMC failed:\n' + tail)
    chk.add_tlc(r)
    chk.stage('tlc.model-check LayoutImplMC', docs_x_configs=len(cases), states=r.distinct,
              transitions=r.generated, wall=round(r.wall, 1))
    return r


def check_c04(chk, args):
    q = chk.tier == 'quick'
    import render_check
    n_known = n_cases = n_rej = 0
    ncf = nlf = 0
    kf = chk.match_finding('C04.forced', HLF)
    for part, u in enumerate(universe_parts(chk, classic=False, quick_sizes=4, thorough_sizes=5,
                                            n_random=400 if q else 6000, n_big=30 if q else 400,
                                            flags={'strict': True})):
        if not u.cases and not u.construct_failures and not u.layout_failures:
            continue
        for t, e in u.construct_failures[:5]:
            chk.violation('C04.construct', 'building %r through the public combinators raised %s' % (t, e),
                          {'term': repr(t), 'error': e})
        for f in u.layout_failures[:5]:
            chk.violation('C04.construct', 'layout of %r at width=%d ribbon=%d/%d smart=%s raised %s' % f,
                          {'term': repr(f[0]), 'width': f[1], 'ribbon_frac': [f[2], f[3]], 'smart': f[4], 'error': f[5]})
        ncf += len(u.construct_failures)
        nlf += len(u.layout_failures)
        if not u.cases:
            continue
        acc, rejected = judge_core(chk, u, 'C04', {}, part=part)
        n_cases += len(u.cases)
        n_rej += len(rejected)
        if rejected:
            v2 = rerun(chk, rejected, 'relaxed%d' % part, strict=False, diag=True)
            for c in rejected:
                m = u.meta[c['id']]
                useds = [set(a[3][1]) for a in v2['ACCEPT'].get(c['id'], []) if a[2] == 'obs']
                if useds and any(us == {HLF} for us in useds) and kf:
                    chk.known(kf)
                    n_known += 1
                    continue
                if useds:
                    chk.violation('C04.forced', 'forced-break rule violated (relaxations needed: %s): %s' % (
                        sorted(min(useds, key=len)), describe(m)), m)
                else:
                    chk.violation('C04.core', 'stream is not a layout of the document (order/indent/choice/annot); '
                                  'longest accepted prefix = %d items: %s' % (longest_prefix(v2, c['id']), describe(m)), m)
        # render clause (a share of every part) and step-wise model checking (the first part: the smallest documents)
        render_check.run(chk, u, limit=(3000 if q else 4000))
        if part == 0:
            run_mc(chk, u, 4000 if q else 60000)
        account(chk, u, 'documents enumerated exhaustively up to a node bound over the combinator algebra '
                '(n-ary concat, bare str children) plus seeded random larger ones, x widths x dyadic ribbon '
                'fractions x {smart, fast}; non-trivial = the document contains a choice (line/softline/'
                'flat_choice/fill), distinct by (document, width, ribbon, strategy)')
    chk.cov['construct_failures'] = ncf
    chk.cov['layout_failures'] = nlf
    chk.stage('verdict', accepted=n_cases - n_rej, known_finding=n_known, violations=len(chk.violations))
    pformat_documents(chk)
    suite_traces(chk)


def pformat_documents(chk):
    """C04 on the documents the bundled printers really build (opaque contextual
    documents are explained by their logged evaluations)."""
    import warnings
    import doccapture
    import values
    import prettyprinter as P
    q = chk.tier == 'quick'
    rng = chk.rng
    vals = values.layout_corpus(chk)
    cases = []
    metas = {}
    cid = 10 ** 6
    fails = 0
    for name, v in vals:
        for (w, rw, ind) in values.configs_for(rng, 3 if q else 8):
            with doccapture.capturing() as cap:
                try:
                    with warnings.catch_warnings():
                        warnings.simplefilter('ignore')
                        P.pformat(v, width=w, ribbon_width=rw, indent=ind)
                except Exception:
                    fails += 1
                    continue
            for call in cap.calls:
                cid += 1
                cases.append(doccapture.case_from_call(cid, call))
                metas[cid] = {'value': name, 'width': w, 'ribbon_width': rw, 'indent': ind,
                              'stream': [x if isinstance(x, str) else repr(x) for x in call['stream']][:60]}
    v, st = common.tlc_batch('LayoutSpec', CFG, cases, os.path.join(chk.workdir, 'pformat'),
                             tags=('ACCEPT', 'POS'), min_per_shard=50, heap='3g')
    chk.add_model(st)
    rejected = [c for c in cases if c['id'] not in v['ACCEPT']]
    n_known = 0
    if rejected:
        v2 = rerun(chk, rejected, 'pformat-relaxed', strict=False, diag=True)
        kf = chk.match_finding('C04.forced', HLF)
        for c in rejected:
            m = metas[c['id']]
            useds = [set(a[3][1]) for a in v2['ACCEPT'].get(c['id'], [])]
            if useds and any(us == {HLF} for us in useds) and kf:
                chk.known(kf)
                n_known += 1
            elif useds:
                chk.violation('C04.forced', 'pformat document: forced-break rule violated: %r' % (m,), m)
            else:
                chk.violation('C04.core', 'pformat document: stream is not a layout of the document built by '
                              'the printers; longest accepted prefix = %d: %r' % (longest_prefix(v2, c['id']), m), m)
    chk.cov['pformat_traces'] = len(cases)
    chk.cov['traces_validated_against_impl'] += len(cases)
    chk.stage('pformat-documents', values=len(vals), traces=len(cases), rejected=len(rejected),
              known_finding=n_known, states=st['distinct'], wall=round(st['wall'], 1), raised=fails)
    for c in cases[:2]:
        chk.sample({'pformat_document': metas[c['id']]})


def suite_traces(chk):
    """The repository's own tests as a trace source: every layout call the pinned tests make
    (requests, attrs, dataclasses, IPython-compat and stdlib printers no generator of mine knows
    about) is validated against LayoutSpec."""
    import json
    import subprocess
    import sys
    q = chk.tier == 'quick'
    out = os.path.join(chk.workdir, 'suite_cases.ndjson')
    files = ['tests/test_stdlib_definitions.py', 'tests/test_attrs.py', 'tests/test_dataclasses.py',
             'tests/test_requests.py', 'tests/test_ipython_repr_pretty.py']
    if not q:
        files.append('tests/test_prettyprinter.py')
    repo = os.environ.get('VERIF_REPO') or '/repo'
    env = dict(os.environ, VERIF_SUITE_OUT=out, PYTHONHASHSEED='0',
               PYTHONPATH=os.pathsep.join([repo, os.path.dirname(os.path.dirname(os.path.abspath(__file__)))]))
    try:
        p = subprocess.run([sys.executable, '-m', 'pytest', '-p', 'suite_plugin', '-q', '-p', 'no:cacheprovider',
                            '-x', '--deselect', 'tests/test_requests.py::test_session',
                            '--deselect', 'tests/test_prettyprinter.py::test_readable'] + files,
                           cwd=repo, env=env, stdout=subprocess.PIPE, stderr=subprocess.STDOUT, text=True,
                           timeout=1500)
    except subprocess.TimeoutExpired:
        chk.cov['suite_traces'] = 'skipped: the test run timed out'
        return
    if not os.path.exists(out):
        chk.cov['suite_traces'] = 'skipped: no trace file (pytest said: %s)' % p.stdout[-300:]
        return
    cases = []
    for i, l in enumerate(open(out)):
        c = json.loads(l)
        c['id'] = 5 * 10 ** 6 + i
        cases.append(c)
    if not cases:
        chk.cov['suite_traces'] = 'no layout call recorded'
        return
    v, st = common.tlc_batch('LayoutSpec', CFG, cases, os.path.join(chk.workdir, 'suite'), tags=('ACCEPT', 'POS'),
                             min_per_shard=20, heap='4g')
    chk.add_model(st)
    rejected = [c for c in cases if c['id'] not in v['ACCEPT']]
    n_known = 0
    if rejected:
        v2 = rerun(chk, rejected, 'suite-relaxed', strict=False, diag=True)
        kf = chk.match_finding('C04.forced', HLF)
        for c in rejected:
            m = {'test': c.get('test'), 'width': c['W'], 'nodes': len(c['nodes'])}
            useds = [set(a[3][1]) for a in v2['ACCEPT'].get(c['id'], [])]
            if useds and any(us == {HLF} for us in useds) and kf:
                chk.known(kf)
                n_known += 1
            elif useds:
                chk.violation('C04.forced', 'layout call made by the test-suite: forced-break rule violated: %r' % (m,), m)
            else:
                chk.violation('C04.core', 'layout call made by the test-suite (%s): stream is not a layout of the document; '
                              'longest accepted prefix = %d' % (m['test'], longest_prefix(v2, c['id'])), m)
    chk.cov['suite_traces'] = len(cases)
    chk.cov['traces_validated_against_impl'] += len(cases)
    chk.stage('test-suite traces', files=len(files), layout_calls=len(cases), rejected=len(rejected),
              known_finding=n_known, states=st['distinct'], wall=round(st['wall'], 1))


def account(chk, u, rule):
    chk.cov['evaluations'] += len(u.cases) + len(u.construct_failures) + len(u.layout_failures)
    chk.cov['skipped_negative_total_indent'] = chk.cov.get('skipped_negative_total_indent', 0) + u.skipped_negative
    chk.cov['traces_validated_against_impl'] += len(u.cases)
    for c in u.cases:
        m = u.meta[c['id']]
        if has_choice(m['term']):
            chk.nontrivial((m['term'], m['W'], tuple(m['ribbon_frac']), m['smart']))
    chk.cov['rule'] = rule
    for c in u.cases[:: max(1, len(u.cases) // 6)][:6]:
        chk.sample(describe(u.meta[c['id']]))
    chk.cov['exhaustive'] = False
    chk.assumptions += [
        'Python side only builds documents, runs the real engine and serialises documents/streams; '
        'acceptance is decided by TLC on spec/LayoutSpec.tla',
        'ribbon fractions are dyadic so that round(frac*width) is exact',
    ]


def check_clause(chk, args, prop, flag, clause):
    q = chk.tier == 'quick'
    unjudged = n_cases = n_rej = n_known = 0
    for part, u in enumerate(universe_parts(chk, classic=True, quick_sizes=5, thorough_sizes=6,
                                            n_random=600 if q else 8000, n_big=30 if q else 400,
                                            flags={'strict': False, flag: True})):
        if not u.cases:
            continue
        acc, rejected = judge_core(chk, u, prop, {flag: True}, part=part)
        n_cases += len(u.cases)
        n_rej += len(rejected)
        if rejected and prop == 'C06':
            # the recorded deviation: under the smart strategy an always_break that normalisation cannot hoist (below
            # annotate / flat_choice / fill / align) and that starts on a FOLLOWING deeper line also breaks the group
            v3 = rerun(chk, rejected, 'next-line%d' % part, rnl=True)
            kf = chk.match_finding('C06.break', NEXT_LINE)
            still = []
            for c in rejected:
                if kf and any(a[2] == 'obs' for a in v3['ACCEPT'].get(c['id'], [])):
                    chk.known(kf)
                    n_known += 1
                else:
                    still.append(c)
            rejected = still
        if rejected:
            v2 = rerun(chk, rejected, 'clause-off%d' % part, **{flag: False, 'diag': True})
            for c in rejected:
                m = u.meta[c['id']]
                if any(a[2] == 'obs' for a in v2['ACCEPT'].get(c['id'], [])):
                    chk.violation(clause, '%s: %s' % (
                        'a group laid out flat sits on a line exceeding page or ribbon' if prop == 'C05'
                        else 'a group was broken although it (and the rest of its line) fits flat', describe(m)), m)
                else:
                    unjudged += 1   # not a layout of the document at all: C04's business
        account(chk, u, 'classic-algebra documents (text, concat, nest, group, line, softline, hardline, '
                'always_break, align) enumerated exhaustively up to a node bound plus seeded random larger ones, '
                'x widths x dyadic ribbon fractions x {smart, fast}; non-trivial = the document contains a '
                'line/softline; distinct by (document, width, ribbon, strategy)')
    chk.cov['unjudged_not_a_layout'] = unjudged
    chk.stage('verdict', accepted=n_cases - n_rej, known_finding=n_known, unjudged=unjudged, violations=len(chk.violations))
    if prop == 'C06':
        import oneline_check
        oneline_check.run(chk)


def check_c05(chk, args):
    check_clause(chk, args, 'C05', 'c05', 'C05.flat')


def check_c06(chk, args):
    check_clause(chk, args, 'C06', 'c06', 'C06.break')
