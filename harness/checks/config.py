"""C18: all entry points and configuration layers agree.
spec/Config.tla, spec/ConfigMC.tla (reachable defaults, history emission),
spec/ConfigTrace.tla (validation of executions of the real package)."""
import io
import itertools
import json
import os
import sys
import warnings

import common
import prettyprinter as P

KEYS = ['indent', 'width', 'depth', 'ribbon_width', 'max_seq_len', 'sort_dict_keys']
DOM = {'indent': [2, 4], 'width': [24, 79], 'depth': [-1, 8], 'ribbon_width': [16, 71],
       'max_seq_len': [1000, 2], 'sort_dict_keys': [0, 1]}
ENTRIES = ['pformat', 'pprint', 'cpprint', 'pretty_repr', 'PrettyPrinter.pformat', 'PrettyPrinter.pprint']

MC_CFG = "CONSTANTS Emit = %s\n HistLen = %d\nINIT Init\nNEXT Next\n%s"
TRACE_CFG = "INIT Init\nNEXT Next\nINVARIANT Done\nCHECK_DEADLOCK FALSE\n"


class Box:
    def __init__(self, payload):
        self.payload = payload

    __repr__ = P.pretty_repr


@P.register_pretty(Box)
def _pretty_box(value, ctx):
    return P.pretty_call(ctx, Box, value.payload)


def decode(k, v):
    if k == 'depth':
        return None if v == -1 else v
    if k == 'sort_dict_keys':
        return bool(v)
    return v


def encode(k, v):
    if k == 'depth':
        return -1 if v is None else v
    if k == 'sort_dict_keys':
        return 1 if v else 0
    return v


def kwargs_of(pairs):
    return {k: decode(k, v) for k, v in pairs}


def _nest(x, n):
    for _ in range(n):
        x = [x]
    return x


class Plain:
    """an unregistered class with an ordinary __repr__ that embeds the repr of a registered value: the inner
    value is reached through repr() -> pretty_repr while the outer entry point is still running"""

    def __init__(self, x):
        self.x = x

    def __repr__(self):
        return 'Plain(%r)' % (self.x,)


class B:
    """registered, pretty_repr, and so short ('B(1)') that its text is the same under every default configuration
    of the domain - the repr() in Plain.__repr__ necessarily uses the defaults, not the outer explicit arguments"""
    __module__ = '__main__'

    def __init__(self, x):
        self.x = x

    __repr__ = P.pretty_repr


@P.register_pretty(B)
def _pretty_b(value, ctx):
    return P.pretty_call(ctx, B, value.x)


import abc as _abc


class ShapeABC(_abc.ABC):
    pass


class V:
    """a VIRTUAL subclass of an ABC that has a printer (singledispatch honours ABC.register)"""
    __module__ = '__main__'
    __repr__ = P.pretty_repr


class RB:
    __module__ = '__main__'


class R(RB):
    """a real subclass of a directly registered class"""
    __module__ = '__main__'
    __repr__ = P.pretty_repr


class N:
    """registered by qualified name only"""
    __module__ = '__main__'
    __repr__ = P.pretty_repr


ShapeABC.register(V)
P.register_pretty(ShapeABC)(lambda v, ctx: P.pretty_call(ctx, type(v)))
P.register_pretty(RB)(lambda v, ctx: P.pretty_call(ctx, type(v)))
P.register_pretty('__main__.N')(lambda v, ctx: P.pretty_call(ctx, type(v)))


# chosen (by search) so that 60 of the 64 full configurations give pairwise different texts
VALUE = Box({'top words words words words': [1, 2, 3],
             'm': _nest('deep words words words words words', 7),
             'a': {'b': {'c': {'d': {'e': {'f': {'g': 1}}}}}},
             'p': Plain(B(1)),
             'q': Plain((V(), R(), N()))})


def reference_table():
    table = []
    texts = {}
    for combo in itertools.product(*[DOM[k] for k in KEYS]):
        cfg = list(zip(KEYS, combo))
        with warnings.catch_warnings():
            warnings.simplefilter('ignore')
            t = P.pformat(VALUE, **kwargs_of(cfg))
        tid = texts.setdefault(t, len(texts) + 1)
        table.append([[list(p) for p in cfg], tid])
    return table, texts


def current_defaults():
    d = dict(P.get_default_config())
    return [[k, encode(k, d[k])] for k in KEYS]


def run_history(ops, texts):
    import colorful
    saved = dict(P.get_default_config())
    saved_obj = P._default_config
    events = []
    try:
        for op in ops:
            if op['op'] == 'set':
                e = {'op': 'set', 'args': op['args'], 'entry': '', 'end': '', 'text': 0, 'tail': ''}
                try:
                    P.set_default_config(**kwargs_of(op['args']))
                except Exception as ex:  # noqa
                    e['error'] = repr(ex)
                e['got'] = current_defaults()
                events.append(e)
                continue
            entry, args, end = op['entry'], op['args'], op['end']
            kw = kwargs_of(args)
            out = None
            tail_expected = end if entry in ('pprint', 'cpprint') else ('\n' if entry == 'PrettyPrinter.pprint' else '')
            try:
                with warnings.catch_warnings():
                    warnings.simplefilter('ignore')
                    if entry == 'pformat':
                        out = P.pformat(VALUE, **kw)
                    elif entry == 'pprint':
                        s = io.StringIO()
                        P.pprint(VALUE, stream=s, end=end, **kw)
                        out = s.getvalue()
                    elif entry == 'cpprint':
                        s = io.StringIO()
                        mode = colorful.colorful.colormode
                        colorful.disable()
                        try:
                            P.cpprint(VALUE, stream=s, end=end, **kw)
                        finally:
                            colorful.colorful.colormode = mode
                        out = s.getvalue()
                    elif entry == 'pretty_repr':
                        out = repr(VALUE)
                    elif entry == 'PrettyPrinter.pformat':
                        out = P.PrettyPrinter(**kw).pformat(VALUE)
                    elif entry == 'PrettyPrinter.pprint':
                        s = io.StringIO()
                        P.PrettyPrinter(stream=s, **kw).pprint(VALUE)
                        out = s.getvalue()
            except Exception as ex:  # noqa
                events.append({'op': 'call', 'entry': entry, 'args': args, 'end': end, 'text': -2, 'tail': '',
                               'got': current_defaults(), 'error': repr(ex)[:200]})
                continue
            if out in texts:
                text, tail = texts[out], ''
            elif tail_expected and out.endswith(tail_expected) and out[:-len(tail_expected)] in texts:
                text, tail = texts[out[:-len(tail_expected)]], tail_expected
            else:
                # find any known text that is a prefix (longest)
                cands = [t for t in texts if out.startswith(t)]
                if cands:
                    best = max(cands, key=len)
                    text, tail = texts[best], out[len(best):]
                else:
                    text, tail = -1, ''
            events.append({'op': 'call', 'entry': entry, 'args': args, 'end': end, 'text': text, 'tail': tail,
                           'got': current_defaults()})
    finally:
        P._default_config = dict(saved)
    return events


def random_history(rng):
    ops = []
    for _ in range(rng.choice([0, 1, 1, 2])):
        ks = [k for k in KEYS if k != 'indent' and rng.random() < 0.4]
        ops.append({'op': 'set', 'args': [[k, rng.choice(DOM[k])] for k in ks]})
        if rng.random() < 0.5:
            ops.append(random_call(rng))
    for _ in range(rng.choice([1, 2, 3])):
        ops.append(random_call(rng))
    return ops


def random_call(rng):
    ks = [k for k in KEYS if rng.random() < 0.4]
    return {'op': 'call', 'entry': rng.choice(ENTRIES), 'args': [[k, rng.choice(DOM[k])] for k in ks],
            'end': rng.choice(['\n', '', 'X'])}


def systematic_histories():
    hs = []
    for k in KEYS:
        for sv in [None] + DOM[k]:
            if k == 'indent' and sv is not None:
                continue
            for ev in [None] + DOM[k]:
                for entry in ENTRIES:
                    ops = []
                    if sv is not None:
                        ops.append({'op': 'set', 'args': [[k, sv]]})
                    ops.append({'op': 'call', 'entry': entry, 'args': [] if ev is None else [[k, ev]], 'end': '\n'})
                    hs.append(ops)
    return hs


def show(ops):
    out = []
    for o in ops:
        if o['op'] == 'set':
            out.append('set_default_config(%s)' % ', '.join('%s=%r' % (k, decode(k, v)) for k, v in o['args']))
        else:
            out.append('%s(%s%s)' % (o['entry'], ', '.join('%s=%r' % (k, decode(k, v)) for k, v in o['args']),
                                     ', end=%r' % o['end'] if 'pprint' in o['entry'] else ''))
    return '; '.join(out)


def pretty_repr_registered(chk):
    """'pretty_repr returns that text for registered types' for every way a type can be registered: directly, through
    a registered base class, as a virtual subclass of a registered ABC, by qualified name; under several defaults."""
    saved = P._default_config
    insts = [('directly registered', lambda: Box([1, 2])), ('directly registered (short)', lambda: B(1)),
             ('subclass of a registered class', R), ('virtual subclass of a registered ABC', V),
             ('registered by name', N)]
    try:
        for defaults in ({}, {'width': 24}, {'width': 24, 'ribbon_width': 16}, {'depth': 8, 'sort_dict_keys': True}):
            P._default_config = dict(saved)
            P.set_default_config(**defaults)
            for how, mk in insts:
                x = mk()
                desc = {'type': type(x).__qualname__, 'registered': how, 'defaults': defaults}
                chk.cov['evaluations'] += 1
                try:
                    with warnings.catch_warnings(record=True) as wl:
                        warnings.simplefilter('always')
                        got = repr(x)
                        want = P.pformat(x)
                except Exception as e:  # noqa
                    chk.violation('C18.pretty_repr', 'pretty_repr / pformat raised %r for a %s type' % (e, how), desc)
                    continue
                msgs = [str(w.message)[:120] for w in wl]
                if got != want or any('no pretty printer is registered' in m for m in msgs):
                    chk.violation('C18.pretty_repr', 'pretty_repr returned %r for a %s type, pformat returns %r (warnings: %r)'
                                  % (got, how, want, msgs), desc)
    finally:
        P._default_config = saved


def pretty_repr_after_late_registration(chk):
    """...for registered types, whenever they were registered: instances of a class (and of its subclasses, alone and
    nested) are shown BEFORE a printer is registered for the class / a base class / by name, and queried with
    is_registered; afterwards pretty_repr must return what pformat returns."""
    from checks.registry import registry_dict
    PPm = common.pp_module('prettyprinter.prettyprinter')
    n = 0
    for how in ('base class by class', 'class itself', 'base class by name', 'base class by class, after queries'):
        mod = 'verif_late_%d' % n
        Base = type('Base', (), {'__module__': mod, '__init__': lambda self, v=1: setattr(self, 'v', v), '__repr__': P.pretty_repr})
        Sub = type('Sub', (Base,), {'__module__': mod})
        Sub2 = type('Sub2', (Sub,), {'__module__': mod})
        printer = lambda v, ctx: P.pretty_call(ctx, type(v).__name__, v=v.v)  # noqa
        try:
            with warnings.catch_warnings():
                warnings.simplefilter('ignore')
                before = [repr(Sub(1)), P.pformat([Sub(2), Sub2(3)]), P.pformat({'k': Base(4)}), repr(Sub2(5))]
                if 'queries' in how:
                    for cls in (Base, Sub, Sub2):
                        for cs in (False, True):
                            P.is_registered(cls, check_superclasses=cs, check_deferred=True, register_deferred=False)
                if how == 'class itself':
                    for cls in (Base, Sub, Sub2):
                        P.register_pretty(cls)(printer)
                elif how == 'base class by name':
                    P.register_pretty(mod + '.Base')(printer)
                else:
                    P.register_pretty(Base)(printer)
            for x in (Sub(1), Sub2(5), Base(4)):
                n += 1
                desc = {'registered': how, 'type': type(x).__name__, 'shown_before_registration': before}
                with warnings.catch_warnings(record=True) as wl:
                    warnings.simplefilter('always')
                    got = repr(x)
                    want = P.pformat(x)
                    inside = P.pformat([x])
                msgs = [str(w.message)[:120] for w in wl]
                expect = '%s(v=%d)' % (type(x).__name__, x.v)
                if got != want or want != expect or inside != '[%s]' % expect or any('no pretty printer' in m for m in msgs):
                    chk.violation('C18.pretty_repr', 'a printer registered (%s) after instances had been shown: pretty_repr '
                                  'returns %r, pformat %r, inside a list %r (expected %r; warnings %r)'
                                  % (how, got, want, inside, expect, msgs), desc)
        except Exception as e:  # noqa
            chk.violation('C18.pretty_repr', 'late registration (%s) raised %r' % (how, e), {'registered': how})
        finally:
            rd = registry_dict()
            for cls in (Base, Sub, Sub2):
                rd.pop(cls, None)
            PPm._DEFERRED_DISPATCH_BY_NAME.pop(mod + '.Base', None)
            PPm.pretty_dispatch._clear_cache()
    chk.cov['evaluations'] += 3 * n


def entry_points_narrow(chk):
    """The entry points at the narrow end of the settings (widths and ribbons of 1..6 columns, where empty containers
    are broken and lines without any text occur): pprint / cpprint (colour off) / PrettyPrinter write exactly what
    pformat returns, plus the end string. (The history domain of Config.tla has widths 24 / 79 only.)"""
    import colorful
    vals = [{}, [{}], {'k': {}}, [[]], [()], {'a': [], 'b': {}}, [set(), frozenset()], [[{}], {1: {}}], ('',), {'': ''},
            [1, [2, [3, [{}]]]], {'k': 'v' * 8, 'e': {}}]
    n = 0
    for v in vals:
        for w in (1, 2, 3, 5, 8):
            for rw in (1, 2, 5, 200):
                for ind in (1, 2, 4):
                    kw = {'width': w, 'ribbon_width': rw, 'indent': ind}
                    n += 1
                    desc = {'value': repr(v), 'settings': kw}
                    try:
                        with warnings.catch_warnings():
                            warnings.simplefilter('ignore')
                            want = P.pformat(v, **kw)
                            outs = {}
                            s_ = io.StringIO()
                            P.pprint(v, stream=s_, end='<END>', **kw)
                            outs['pprint'] = s_.getvalue()
                            s_ = io.StringIO()
                            mode = colorful.colorful.colormode
                            colorful.disable()
                            try:
                                P.cpprint(v, stream=s_, end='<END>', **kw)
                            finally:
                                colorful.colorful.colormode = mode
                            outs['cpprint (colour off)'] = s_.getvalue()
                            s_ = io.StringIO()
                            P.PrettyPrinter(stream=s_, **kw).pprint(v)
                            outs['PrettyPrinter.pprint'] = s_.getvalue()[:-1] + '<END>' if s_.getvalue().endswith('\n') else s_.getvalue()
                            outs['PrettyPrinter.pformat'] = P.PrettyPrinter(**kw).pformat(v) + '<END>'
                    except Exception as e:  # noqa
                        chk.violation('C18.entry-points', 'an entry point raised %r for %r' % (e, desc), desc)
                        continue
                    for name, got in outs.items():
                        if got != want + '<END>':
                            chk.violation('C18.entry-points', '%s wrote %r, pformat + end is %r (%r)' % (name, got, want + '<END>', desc),
                                          dict(desc, entry=name))
    chk.cov['evaluations'] += 5 * n
    chk.stage('entry points at narrow settings', prints=5 * n)


def long_lived_printers(chk):
    """PrettyPrinter objects constructed BEFORE a set_default_config call: the settings they were not given explicitly
    follow the defaults in force when they print ('later calls without explicit arguments use' the new defaults),
    the explicit ones stay."""
    saved = P._default_config
    v = {'key': [1, 2, 3], 'words': 'some words ' * 6, 'nested': {'b': {'a': [4, 5, {'z': 1, 'y': 2}]}}}
    try:
        P._default_config = dict(saved)
        objs = [({}, P.PrettyPrinter()), ({'indent': 2}, P.PrettyPrinter(indent=2)), ({'width': 30}, P.PrettyPrinter(width=30)),
                ({'sort_dict_keys': True, 'depth': 3}, P.PrettyPrinter(sort_dict_keys=True, depth=3))]
        steps = [{}, {'width': 40}, {'ribbon_width': 20}, {'depth': 2}, {'max_seq_len': 2}, {'sort_dict_keys': True},
                 {'width': 79, 'ribbon_width': 71, 'depth': None}]
        for step in steps:
            if step:
                P.set_default_config(**step)
            for explicit, pp in objs:
                chk.cov['evaluations'] += 2
                desc = {'constructed_with': explicit, 'defaults_set_since': step, 'defaults_now': dict(P.get_default_config())}
                try:
                    with warnings.catch_warnings():
                        warnings.simplefilter('ignore')
                        want = P.pformat(v, **explicit)
                        got = pp.pformat(v)
                except Exception as e:  # noqa
                    chk.violation('C18.effective-settings', 'a long-lived PrettyPrinter raised %r (%r)' % (e, desc), desc)
                    continue
                if got != want:
                    chk.violation('C18.effective-settings', 'a PrettyPrinter constructed with %r before set_default_config(%r) '
                                  'prints %r, pformat with the same explicit settings gives %r' % (explicit, step, got, want), desc)
    finally:
        P._default_config = saved


def check_c18(chk, args):
    q = chk.tier == 'quick'
    rng = chk.rng
    pretty_repr_registered(chk)
    pretty_repr_after_late_registration(chk)
    long_lived_printers(chk)
    entry_points_narrow(chk)
    table, texts = reference_table()
    chk.cov['reference_texts_distinct'] = len(texts)
    if len(texts) < 48:
        chk.machinery_error('reference value is not sensitive enough to the settings: %d distinct texts for %d '
                            'configs' % (len(texts), len(table)))
    # model level
    r = common.run_tlc('ConfigMC', MC_CFG % ('FALSE', 0, 'INVARIANT TypeOK\nINVARIANT IndentFixed\nINVARIANT MergeLaw\n'),
                       os.path.join(chk.workdir, 'mc'), workers=4, heap='2g')
    chk.add_tlc(r)
    if r.invariant_violated:
        chk.violation('C18.model', 'ConfigMC invariant violated\n' + '\n'.join(r.out.splitlines()[-30:]), {})
    elif not r.ok:
        raise common.MachineryError('ConfigMC failed:\n' + '\n'.join(r.out.splitlines()[-30:]))
    chk.stage('tlc.model-check ConfigMC', states=r.distinct, transitions=r.generated, exhaustive=True)
    # histories from TLC (random walks through the spec) + systematic + seeded random
    wd = os.path.join(chk.workdir, 'sim')
    rs = common.run_tlc('ConfigMC', MC_CFG % ('TRUE', 4, 'INVARIANT EmitHist\n'), wd, workers=1, heap='2g',
                        simulate='num=%d' % (3 if q else 40), extra=['-seed', str(chk.seed), '-depth', '5'])
    sims = [json.loads(common.parse_tla_value(l)[1]) for l in rs.lines('H')]
    if len(sims) > (3000 if q else 60000):
        sims = rng.sample(sims, 3000 if q else 60000)
    hs = systematic_histories() + sims + [random_history(rng) for _ in range(1500 if q else 30000)]
    chk.stage('histories', systematic=len(systematic_histories()), tlc_simulated=len(sims), total=len(hs))
    cases = []
    for i, ops in enumerate(hs):
        ev = run_history(ops, texts)
        cases.append({'id': i + 1, 'events': ev, 'table': table})
    # canaries: a call that used the wrong width
    can = []
    for c in cases[:400]:
        if len(can) >= 20:
            break
        for j, e in enumerate(c['events']):
            if e['op'] == 'call' and e['text'] > 0:
                k = json.loads(json.dumps(c))
                k['events'][j]['text'] = (e['text'] % len(texts)) + 1
                k['id'] = len(cases) + len(can) + 1
                can.append(k)
                break
    v, st = common.tlc_batch('ConfigTrace', TRACE_CFG, cases + can, os.path.join(chk.workdir, 'trace'),
                             tags=('DONE',), min_per_shard=150, heap='2g')
    chk.add_model(st)
    chk.stage('tlc.validate', traces=len(cases), canaries=len(can), states=st['distinct'], wall=round(st['wall'], 1))
    chk.cov['canaries_total'] = len(can)
    for k in can:
        bad = v['DONE'].get(k['id'], [[0, 0, ('set', [])]])[0][2][1]
        if bad:
            chk.cov['canaries_rejected'] += 1
        else:
            chk.machinery_error('canary history accepted by ConfigTrace')
    nv = 0
    for c, ops in zip(cases, hs):
        if c['id'] not in v['DONE']:
            chk.machinery_error('no verdict for history %d' % c['id'])
            continue
        bad = v['DONE'][c['id']][0][2][1]
        if bad:
            nv += 1
            pos, clause = sorted(bad)[0]
            e = c['events'][pos - 1]
            chk.violation(clause, 'history %s: step %d observed %r' % (
                show(ops), pos, {k: e.get(k) for k in ('text', 'tail', 'got', 'error')}),
                {'ops': ops, 'events': c['events'], 'bad': sorted(bad)})
        if any(o['op'] == 'set' and o['args'] for o in ops):
            chk.nontrivial(show(ops))
    chk.cov['evaluations'] += len(cases)
    chk.cov['traces_validated_against_impl'] = len(cases)
    chk.cov['rule'] = ('histories of <= 2 set_default_config calls (arbitrary key subsets over two-valued domains) '
                       'interleaved with calls through each of the six entry points with arbitrary explicit subsets '
                       'and end strings; systematic per-key grid + TLC -simulate walks of ConfigMC + seeded random; '
                       'non-trivial = some default was changed; distinct by operation sequence')
    for ops in hs[:: max(1, len(hs) // 5)][:5]:
        chk.sample(show(ops))
    chk.assumptions += ['texts are identified by equality with one of the 64 reference texts pformat returns for a '
                        'value whose rendering differs under (nearly) every full configuration (count in reference_texts_distinct)',
                        'cpprint is run with colorful disabled (colour off)']
    chk.stage('verdict', rejected=nv)
