"""C19: output depends only on value and settings; inputs are never modified.
spec/History.tla validates print histories executed on the real package against
baselines obtained by printing each value FIRST in a FRESH interpreter."""
import collections
import gc
import json
import os
import subprocess
import sys
from concurrent.futures import ThreadPoolExecutor

import common
import corpus19 as C
import prettyprinter as P
from checks.registry import registry_dict

PP = C.PP
CFG = "INIT Init\nNEXT Next\nINVARIANT Done\nCHECK_DEADLOCK FALSE\n"


def snapshot(v, memo=None, depth=0):
    """Structural snapshot: types, identities, contents, order, maxlen, default_factory."""
    if memo is None:
        memo = {}
    if id(v) in memo:
        return ('ref', memo[id(v)])
    if isinstance(v, (int, float, str, bytes, type(None), type(Ellipsis), bool, complex)) or depth > 30:
        return (type(v).__name__, repr(v))
    memo[id(v)] = len(memo)
    t = type(v).__qualname__
    if isinstance(v, PP._CommentedValue) or isinstance(v, PP._TrailingCommentedValue):
        return (t, id(v), v.comment, snapshot(v.value, memo, depth + 1))
    if isinstance(v, dict):
        extra = getattr(v, 'default_factory', None)
        return (t, id(v), repr(extra), [(snapshot(k, memo, depth + 1), snapshot(x, memo, depth + 1)) for k, x in v.items()])
    if isinstance(v, collections.deque):
        return (t, id(v), v.maxlen, [snapshot(x, memo, depth + 1) for x in v])
    if isinstance(v, (list, tuple)):
        return (t, id(v), [snapshot(x, memo, depth + 1) for x in v])
    if isinstance(v, (set, frozenset)):
        return (t, id(v), [snapshot(x, memo, depth + 1) for x in v])   # iteration order included
    if isinstance(v, collections.ChainMap):
        return (t, id(v), [snapshot(m, memo, depth + 1) for m in v.maps])
    d = getattr(v, '__dict__', None)
    if isinstance(d, dict):
        return (t, id(v), [(k, snapshot(x, memo, depth + 1)) for k, x in d.items()], repr(v)[:200])
    return (t, id(v), repr(v)[:300])


class Caches:
    def __init__(self):
        self.deferred = dict(PP._DEFERRED_DISPATCH_BY_NAME)
        self.registry = dict(registry_dict())
        self.preds = list(PP._PREDICATE_REGISTRY)

    def reset(self):
        """Back to the registrations of the start. The registries are private state: pending by-name printers are put
        back through the PUBLIC register_pretty (so that whatever the package derives from its registries - a cache of
        scanned classes, say - is invalidated the way the package itself does it)."""
        rd = registry_dict()
        rd.clear()
        rd.update(self.registry)
        PP.pretty_dispatch._clear_cache()
        PP._PREDICATE_REGISTRY[:] = self.preds
        getattr(PP, '_cnamedtuple_fieldnames_by_class', {}).clear()
        cur = PP._DEFERRED_DISPATCH_BY_NAME
        for k in list(cur):
            if k not in self.deferred:
                cur.pop(k)
        for k, fn in self.deferred.items():
            # (always re-registered, also when still pending: a by-name registration is the event that tells the
            # package that its view of the classes may be stale - the directly registered entries were just removed)
            P.register_pretty(k)(fn)


def baselines(n):
    def one(i):
        env = dict(os.environ, PYTHONHASHSEED='0')
        p = subprocess.run([sys.executable, '-c', 'import sys; sys.path.insert(0, %r); import corpus19; corpus19.main(%d)' % (os.path.dirname(C.__file__), i)],
                           stdout=subprocess.PIPE, stderr=subprocess.PIPE, text=True, env=env, timeout=120)
        if p.returncode != 0:
            raise common.MachineryError('baseline subprocess failed: ' + p.stderr[-500:])
        return json.loads(p.stdout.strip().splitlines()[-1])
    with ThreadPoolExecutor(max_workers=common.NCPU) as ex:
        return list(ex.map(one, range(n)))


def aborted_call_case(chk, cid):
    """A pformat call that is ABORTED by an exception (a list nested deeper than the interpreter's
    recursion limit) must not influence later calls: every level of that same object is printed
    (depth=2) before and after the aborted call; 'before' plays the role of the baseline."""
    import warnings
    import prettyprinter as P
    deep = cur = []
    levels = [deep]
    for _ in range(700):
        nxt = []
        cur.append(nxt)
        cur = nxt
        levels.append(cur)
    cur.append(1)
    texts = {}

    def pr1(v, **kw):
        try:
            with warnings.catch_warnings():
                warnings.simplefilter('ignore')
                return C.norm(P.pformat(v, **kw))
        except BaseException as e:  # noqa
            return 'RAISED ' + type(e).__name__

    def pr(v):
        # with a depth limit, and - for the innermost levels, which are shallow - with exactly the configuration of
        # the aborted call
        return pr1(v, depth=2) + ('\n--\n' + pr1(v) if any(v is x for x in levels[-25:]) else '')
    before = [pr(v) for v in levels]
    try:
        with warnings.catch_warnings():
            warnings.simplefilter('ignore')
            P.pformat(deep)              # no depth limit: exceeds the recursion limit
        aborted = 'returned normally'
    except BaseException as e:  # noqa
        aborted = 'raised ' + type(e).__name__
    after = [pr(v) for v in levels]
    chk.cov['aborted_call'] = {'levels': len(levels), 'aborted_with': aborted}
    base = [{'text': texts.setdefault(t, len(texts) + 1), 'foot': []} for t in before]
    hist = [{'v': i + 1, 'text': texts.setdefault(t, len(texts) + 1), 'proj': [], 'same': True,
             'raw': t if t != before[i] else None} for i, t in enumerate(after)]
    return {'id': cid, 'hist': hist, 'base': base, 'scenario': 'aborted-call'}


def check_c19(chk, args):
    q = chk.tier == 'quick'
    rng = chk.rng
    caches = Caches()      # pristine: nothing has been printed in this interpreter yet
    n = len(C.FACTORIES)
    base = baselines(n)
    values = [f() for _, f in C.FACTORIES]     # the SAME objects are printed again and again
    # Keys of one type that cannot be ordered among themselves are sorted by the IDENTITY of the key objects (as
    # pprint does): the text is a function of the value within one interpreter only, so for those entries the
    # baseline is the first print in THIS interpreter (pristine caches, nothing printed before), not in another one.
    for i, (name, _) in enumerate(C.FACTORIES):
        if name in getattr(C, 'IDENTITY_ORDERED', ()):
            caches.reset()
            base[i]['text'] = C.print_one(values[i])
            caches.reset()
    texts = {}
    for b in base:
        b['tid'] = texts.setdefault(b['text'], len(texts) + 1)
    chk.stage('baselines', values=n, fresh_interpreters=n,
              with_footprint=sum(1 for b in base if b['foot']))
    # histories: all ordered pairs (quick) / triples over a subset (thorough) + random walks with repetition
    hs = [[i] for i in range(n)]
    hs += [[i, j] for i in range(n) for j in range(n)]
    if not q:
        lazy = [i for i, b in enumerate(base) if b['foot']]
        hs += [[i, j, k] for i in lazy for j in lazy for k in range(n)]
    for _ in range(60 if q else 1500):
        hs.append([rng.randrange(n) for _ in range(30)])
    kw_variants = [{}]
    cases = []
    meta = []
    snaps = [snapshot(v) for v in values]
    for hid, h in enumerate(hs):
        caches.reset()
        ev = []
        for i in h:
            if C.FACTORIES[i][0] in getattr(C, 'EPHEMERAL', ()):
                tmp = C.FACTORIES[i][1]()
                text = C.print_one(tmp)
                del tmp
                gc.collect(1)     # the young generations: the classes just dropped (a full collection walks the whole harness heap)
                ev.append({'v': i + 1, 'text': texts.get(text, -1), 'proj': C.projection(), 'same': True,
                           'raw': text[:300] if texts.get(text, -1) != base[i]['tid'] else None})
                continue
            before = snaps[i]
            text = C.print_one(values[i])
            after = snapshot(values[i])
            same = (after == before)
            ev.append({'v': i + 1, 'text': texts.get(text, -1), 'proj': C.projection(), 'same': same,
                       'raw': text[:300] if texts.get(text, -1) != base[i]['tid'] else None})
            if not same:
                values[i] = C.FACTORIES[i][1]()
                snaps[i] = snapshot(values[i])
        cases.append({'id': hid + 1, 'hist': ev,
                      'base': [{'text': b['tid'], 'foot': b['foot']} for b in base]})
    caches.reset()
    cases.append(aborted_call_case(chk, len(cases) + 1))
    hs.append([])
    # canaries
    can = []
    for c in cases[:10]:
        k = json.loads(json.dumps(c))
        k['hist'][-1]['text'] = -1
        k['id'] = len(cases) + len(can) + 1
        can.append(k)
    v, st = common.tlc_batch('History', CFG, cases + can, os.path.join(chk.workdir, 'hist'), tags=('DONE',),
                             min_per_shard=100, heap='2g')
    chk.add_model(st)
    chk.stage('tlc.validate', histories=len(cases), prints=sum(len(h) for h in hs), states=st['distinct'],
              wall=round(st['wall'], 1))
    chk.cov['canaries_total'] = len(can)
    for k in can:
        if v['DONE'][k['id']][0][2][1]:
            chk.cov['canaries_rejected'] += 1
        else:
            chk.machinery_error('canary history accepted by History.tla')
    nv = nd = 0
    for c, h in zip(cases, hs):
        bad = v['DONE'][c['id']][0][2][1]
        drift = v['DONE'][c['id']][0][3][1]
        names = [C.FACTORIES[i][0] for i in h]
        if c.get('scenario') == 'aborted-call':
            if bad:
                nv += 1
                pos, clause = sorted(bad)[0]
                chk.violation('C19.history-dependent', 'after a pformat call that was aborted by an exception (a list nested '
                              'deeper than the recursion limit), printing level %d of that same object with depth=2 gives '
                              '%r instead of what it gave before the aborted call' % (pos - 1, c['hist'][pos - 1]['raw']),
                              {'scenario': 'aborted-call', 'level': pos - 1})
            continue
        if bad:
            nv += 1
            pos, clause = sorted(bad)[0]
            e = c['hist'][pos - 1]
            chk.violation(clause, 'history %s: print #%d of %r gives %r, first-print-in-fresh-interpreter gives %r' % (
                names[:pos], pos, names[pos - 1], e['raw'], base[h[pos - 1]]['text'][:300]) if clause == 'C19.history-dependent'
                else 'history %s: printing %r modified its input' % (names[:pos], names[pos - 1]),
                {'history': names, 'position': pos, 'observed': e, 'baseline': base[h[pos - 1]]})
        if drift:
            nd += 1
            pos = sorted(drift)[0]
            chk.drifted('History.tla predicts another cache projection after print #%d of history %s: observed %r' % (
                pos, names[:pos], c['hist'][pos - 1]['proj']))
        if len(set(h)) > 1 and any(base[i]['foot'] for i in h):
            chk.nontrivial(tuple(h))
    chk.cov['evaluations'] = sum(len(h) for h in hs)
    chk.cov['traces_validated_against_impl'] = len(cases)
    chk.cov['rule'] = ('print histories over a corpus of %d values touching every cache (lazily registered bundled '
                       'types and subclasses of them, struct sequences, namedtuples, strings, commented values, '
                       'predicate-dispatched dataclass/attrs instances): all histories of length <= 2%s and random walks '
                       'of length 30 with repetition; each text compared (by TLC, History.tla) with the baseline of that '
                       'value printed first in a fresh interpreter; non-trivial = >= 2 distinct values, one of which '
                       'warms a cache; distinct by value sequence' % (n, '' if q else ', triples starting with two cache-warming values'))
    for h in hs[n:n + 3] + hs[-2:]:
        chk.sample([C.FACTORIES[i][0] for i in h])
    chk.assumptions += ['caches are reset to the pristine import state between histories by the harness',
                        'object ids in recursion markers are normalised', 'PYTHONHASHSEED=0 in every interpreter']
    chk.stage('verdict', rejected=nv, drift=nd)
