"""C17: call-style printers show exactly the constructor call.
(1) pretty_call / pretty_call_alt: call shape judged by TLC (TermTrace mode "same");
(2) dataclasses / attrs extras: class definitions ENUMERATED BY TLC from spec/Extras.tla,
    materialised here, printed, and the printed keywords validated against Extras!Shown."""
import collections
import dataclasses
import json
import os
import warnings

import attr

import common
import pyterm
import prettyprinter as P

PP = common.pp_module('prettyprinter.prettyprinter')
TT_CFG = "INIT Init\nNEXT Next\nINVARIANT Report\nCHECK_DEADLOCK FALSE\n"
EMIT_CFG = "CONSTANT MaxFields = %d\nINIT EInit\nNEXT Next\nINVARIANT ShownSubsetOfRepr\nCHECK_DEADLOCK FALSE\n"
VAL_CFG = "CONSTANT MaxFields = 0\nINIT VInit\nNEXT Next\nINVARIANT Report\nCHECK_DEADLOCK FALSE\n"


class K:
    class Inner:
        pass

    @classmethod
    def make(cls, *a, **k):
        return (cls, a, k)

    @staticmethod
    def smake(*a, **k):
        return (a, k)


import abc as _abc


class Shape(_abc.ABC):
    """a class whose metaclass is not `type` (alternative constructors are classmethods bound to the CLASS)"""

    @classmethod
    def from_parts(cls, *a, **k):
        return (cls, a, k)


def func(*a, **k):
    return (a, k)


class Carrier:
    """value printed through pretty_call / pretty_call_alt with recorded args"""

    def __init__(self, fn, args, kwargs, alt, kwform):
        self.fn, self.args, self.kwargs, self.alt, self.kwform = fn, args, kwargs, alt, kwform


@P.register_pretty(Carrier)
def pretty_carrier(v, ctx):
    if v.alt:
        kw = v.kwargs
        if v.kwform == 'od':
            kw = collections.OrderedDict(kw)
        elif v.kwform == 'dict':
            kw = dict(kw)
        elif v.kwform == 'zip':        # one-shot iterators: what pretty_namedtuple itself passes
            kw = zip([k for k, _ in kw], [x for _, x in kw])
        elif v.kwform == 'gen':
            kw = ((k, x) for k, x in list(kw))
        elif v.kwform == 'iter':
            kw = iter(list(kw))
        elif v.kwform == 'items':
            kw = collections.OrderedDict(kw).items()
        elif v.kwform == 'tuple':
            kw = tuple(kw)
        return P.pretty_call_alt(ctx, v.fn, args=tuple(v.args), kwargs=kw)
    return P.pretty_call(ctx, v.fn, *v.args, **dict(v.kwargs))


def expected_name(fn):
    mod = fn.__module__
    if mod in ('builtins', '__main__', None):      # (None: methods of built-in types, e.g. dict.fromkeys)
        return fn.__qualname__
    return '%s.%s' % (mod, fn.__qualname__)


ARGS = [[5, 4, 3, 2, 1], {'z': 1, 'b': 2, 'm': (1, 2, 3)}, 1, -2, 1.5, 'a', 'it\'s', 'a long string value that has to be split somewhere ' * 2, None, True, [1, 2], (1,),
        {'a': 1}, [], {}, b'bytes', ['nested', ['list', {'k': 'v'}]], {'k1': 1, 'k2': 2, 'k3': 3}, ...]


def call_shape(chk):
    q = chk.tier == 'quick'
    rng = chk.rng
    cases = []
    meta = {}
    seen = set()
    # classes, nested classes, functions, built-ins - and alternative constructors: class methods (bound to a class with
    # the default and with another metaclass), static methods, a class method of a built-in type
    fns = [K, K.Inner, func, dict, sorted, collections.OrderedDict, Carrier, K.make, K.smake, Shape.from_parts, dict.fromkeys,
           K.Inner, collections.OrderedDict.fromkeys]
    nprints = 0
    bound = []
    # the same value (object) at several argument positions: the printers of None, Ellipsis, True ... return one shared
    # document each, and the same list object may be passed twice
    shared = [1, 2]
    repeats = []
    for x in (None, Ellipsis, True, 0, 'a', shared, (), 1.5):
        repeats += [([x, x], []), ([x, 1, x], []), ([1, x, x], []), ([x, x], [('k', x)]), ([], [('a', x), ('b', x)]), ([x], [('k', x)])]
    for rep in range((400 if q else 8000) + len(repeats)):
        fn = rng.choice(fns)
        na = rng.choice([0, 1, 1, 2, 3])
        nk = rng.choice([0, 0, 1, 2, 3])
        args = [rng.choice(ARGS) for _ in range(na)]
        names = rng.sample(['alpha', 'b', 'key', 'zz', 'a1'], nk)
        kwargs = [(n, rng.choice(ARGS)) for n in names]
        if rep < len(repeats):
            args, kwargs = list(repeats[rep][0]), list(repeats[rep][1])
            na, nk = len(args), len(kwargs)
        alt = rng.random() < 0.6
        kwform = rng.choice(['pairs', 'od', 'dict', 'zip', 'gen', 'iter', 'items', 'tuple'])
        com = {}
        cargs = list(args)
        ckwargs = list(kwargs)
        r_ = rng.random()
        if args and r_ < 0.2:
            i = rng.randrange(len(args))
            cargs[i] = P.comment(args[i], 'note')
        elif kwargs and r_ < 0.45:
            # a comment on a KEYWORD value only (the call must still be laid out so that the comment ends its line)
            i = rng.randrange(len(kwargs))
            ckwargs[i] = (kwargs[i][0], P.comment(kwargs[i][1], 'kw note'))
        v = Carrier(fn, cargs, ckwargs, alt, kwform)
        if Ellipsis not in args and all(x is not Ellipsis for _, x in kwargs):
            bound.append(Carrier(fn, cargs, ckwargs, alt, 'pairs'))
        for w in rng.sample([1, 10, 30, 79, 200, 400, 10 ** 5], 3):
            nprints += 1
            # the settings every argument must be printed with, too ("exactly as it would be on its own")
            settings = {'max_seq_len': rng.choice([1000, 1000, 2, 1, None]), 'sort_dict_keys': rng.random() < 0.4}
            if w >= 200:
                settings['ribbon_width'] = w      # wide enough for the whole call to fit on one line
            desc = {'callable': expected_name(fn), 'args': repr(args)[:200], 'kwargs': repr(kwargs)[:200],
                    'via': 'pretty_call_alt/' + kwform if alt else 'pretty_call', 'width': w, 'settings': settings}
            try:
                with warnings.catch_warnings(record=True) as wl:
                    warnings.simplefilter('always')
                    with common.time_limit(20):
                        out = P.pformat(v, width=w, **settings)
                        oset = {k_: x_ for k_, x_ in settings.items() if k_ != 'ribbon_width'}
                        own = [pyterm.parse_output(P.pformat(a, width=10 ** 5, ribbon_width=10 ** 5, **oset)) for a in args]
                        kown = [[n, pyterm.parse_output(P.pformat(a, width=10 ** 5, ribbon_width=10 ** 5, **oset))]
                                for n, a in kwargs]
            except (Exception, common.Timeout, pyterm.ParseError) as e:  # noqa
                chk.violation('C17.raises', 'printing %r raised %r' % (desc, e), desc)
                continue
            if any('raised an exception' in str(x.message) for x in wl):
                chk.violation('C17.printer-failed', 'printer failed for %r' % (desc,), desc)
                continue
            if out in seen:
                continue
            seen.add(out)
            desc['output'] = out
            try:
                obs = pyterm.parse_output(out)
            except pyterm.ParseError as e:
                chk.violation('C17.syntax', 'not an expression (%s): %r' % (e, desc), desc)
                continue
            cid = len(cases) + 1
            cases.append({'id': cid, 'mode': 'same', 'obs': obs, 'val': ['call', expected_name(fn), own, kown],
                          'subs': [], 'N': 0, 'notices': []})
            meta[cid] = desc
            if na + nk >= 2:
                chk.nontrivial(out)
    can = []
    for c in cases[:: max(1, len(cases) // 15)][:15]:
        if len(c['val'][2]) >= 2 and list(reversed(c['val'][2])) != list(c['val'][2]):
            k = dict(c)
            k['id'] = len(cases) + len(can) + 1
            k['val'] = ['call', c['val'][1], list(reversed(c['val'][2])), c['val'][3]]
            can.append(k)
    v, st = common.tlc_batch('TermTrace', TT_CFG, cases + can, os.path.join(chk.workdir, 'shape'), tags=('ACCEPT',),
                             min_per_shard=300, heap='2g')
    chk.add_model(st)
    acc = v['ACCEPT']
    chk.cov['canaries_total'] += len(can)
    for k in can:
        if k['id'] in acc:
            chk.machinery_error('canary accepted (arguments in reverse order)')
        else:
            chk.cov['canaries_rejected'] += 1
    nrej = 0
    for c in cases:
        if c['id'] not in acc:
            nrej += 1
            d = meta[c['id']]
            chk.violation('C17.call-shape', 'the output is not the call %s(args in order, keywords in order), each argument '
                          'printed as on its own: %r' % (d['callable'], d), d)
    # spec -> code: Printers!CallAlt / BuildFncall predict the exact text of the call (DRIFT only)
    from checks import values_checks as VC
    VC.CALL_TYPES[Carrier] = lambda c: (expected_name(c.fn), c.args, list(c.kwargs))
    VC.printers_binding(chk, bound, name='calls', per_value=2)
    chk.cov['evaluations'] += nprints
    chk.cov['traces_validated_against_impl'] += len(cases)
    chk.stage('call-shape', prints=nprints, distinct=len(cases), rejected=nrej, states=st['distinct'])
    for c in cases[:3]:
        chk.sample(meta[c['id']])


# ---------------------------------------------------------------------------
_n = [0]


# field i of a generated class is called FIELD_NAMES[i]: declaration order is deliberately
# neither alphabetical nor reverse-alphabetical (Extras!Name(i) = "f<i>" on the spec side)
FIELD_NAMES = ['zeta', 'alpha', 'mid', 'beta']
# ... and every third class uses names that are also parameter names of pretty_call / the printers' own helpers
RESERVED_NAMES = ['fn', 'ctx', 'args', 'kwargs']
SPEC_NAME = {n: 'f%d' % (i + 1) for i, n in enumerate(FIELD_NAMES)}
SPEC_NAME.update({n: 'f%d' % (i + 1) for i, n in enumerate(RESERVED_NAMES)})


def field_names():
    return RESERVED_NAMES if (_n[0] // 2) % 3 == 1 else FIELD_NAMES


def materialise(d, lib):
    """Class + instance for a TLC-generated definition."""
    _n[0] += 1
    name = 'Gen%s%d' % (lib, _n[0])
    fields = d['fields']
    vals = {}
    if lib == 'dc':
        specs = []
        for i, f in enumerate(fields):
            fname = field_names()[i]
            kw = {'repr': f['repr']}
            if f['dflt'] == 'value':
                kw['default'] = 0
            elif f['dflt'] == 'factory':
                kw['default_factory'] = list
            specs.append((fname, object, dataclasses.field(**kw)))
        pseudo = (_n[0] // 2) % 2 == 0       # every other dataclass (materialise alternates dc / attrs)
        if pseudo:
            # pseudo-fields are not fields (dataclasses.fields() leaves them out): a ClassVar whose class-level value
            # changes after the class was defined, and an InitVar with a default
            import typing
            specs.append(('tally', typing.ClassVar[int], 0))
            specs.append(('seed', dataclasses.InitVar[int], 0))
        cls = dataclasses.make_dataclass(name, specs, frozen=d['frozen'], slots=d['slots'], kw_only=True)
        if pseudo:
            cls.tally = 3
    else:
        attrs = {}
        for i, f in enumerate(fields):
            fname = field_names()[i]
            kw = {'repr': f['repr']}
            if f['dflt'] == 'value':
                kw['default'] = 0
            elif f['dflt'] == 'factory':
                kw['factory'] = list
            attrs[fname] = attr.ib(**kw)
        cls = attr.make_class(name, attrs, frozen=d['frozen'], slots=d['slots'], kw_only=True)
    cls.__module__ = 'verif_c17gen'
    cls.__qualname__ = name
    for i, f in enumerate(fields):
        fname = field_names()[i]
        if f['dflt'] == 'none':
            vals[fname] = 7
        elif f['dflt'] == 'value':
            if not f['same']:
                vals[fname] = 5
        else:
            if not f['same']:
                vals[fname] = [1]
    inst = cls(**vals)
    return cls, inst


def extras(chk):
    q = chk.tier == 'quick'
    with warnings.catch_warnings():
        warnings.simplefilter('ignore')
        P.install_extras(['dataclasses', 'attrs'], warn_on_error=False)
    wd = os.path.join(chk.workdir, 'emit')
    r = common.run_tlc('Extras', EMIT_CFG % (2 if q else 3), wd, workers=1, heap='2g')
    if not r.ok:
        raise common.MachineryError('Extras emission failed:\n' + '\n'.join(r.out.splitlines()[-30:]))
    chk.add_tlc(r)
    defs = [json.loads(common.parse_tla_value(l)[1]) for l in r.lines('DEF')]
    chk.stage('tlc.emit Extras', class_definitions=len(defs), states=r.distinct)
    cases = []
    meta = {}
    import types
    genmod = types.ModuleType('verif_c17gen')
    for d in defs:
        for lib in ('dc', 'at'):
            cid = len(cases) + 1
            desc = {'library': 'dataclasses' if lib == 'dc' else 'attrs', 'definition': d}
            try:
                cls, inst = materialise(d, lib)
            except Exception as e:  # noqa
                raise common.MachineryError('cannot materialise %r with %s: %r' % (d, lib, e))
            setattr(genmod, cls.__name__, cls)
            try:
                with warnings.catch_warnings(record=True) as wl:
                    warnings.simplefilter('always')
                    with common.time_limit(20):
                        out = P.pformat(inst, width=rng_width(chk))
            except (Exception, common.Timeout) as e:  # noqa
                chk.violation('C17.raises', 'printing an instance of %r raised %r' % (desc, e), desc)
                continue
            if any('raised an exception' in str(x.message) for x in wl):
                chk.violation('C17.printer-failed', 'the %s printer failed for %r' % (desc['library'], d), desc)
                continue
            desc['output'] = out
            try:
                obs = pyterm.parse_output(out)
            except pyterm.ParseError as e:
                chk.violation('C17.syntax', 'not an expression (%s): %r' % (e, desc), desc)
                continue
            names = [SPEC_NAME.get(k, k) for k, _ in obs[3]] if obs[0] == 'call' else ['<not a call>']
            name_ok = obs[0] == 'call' and obs[1] == 'verif_c17gen.' + cls.__name__ and not obs[2]
            try:
                back = eval(out, {'verif_c17gen': genmod})
                equal = type(back) is cls and back == inst
            except Exception:
                equal = False
            cases.append({'id': cid, 'fields': d['fields'], 'frozen': d['frozen'], 'slots': d['slots'], 'names': names,
                          'callname_ok': bool(name_ok), 'equal': bool(equal)})
            meta[cid] = desc
            chk.nontrivial((lib, json.dumps(d, sort_keys=True)))
    self_dependent_defaults(chk, cases, meta, genmod)
    nested_instances(chk, cases, meta, genmod)
    can = []
    for c in cases:
        if len(can) >= 15:
            break
        if c['names']:
            k = dict(c)
            k['id'] = 10 ** 6 + len(can)
            k['names'] = c['names'][1:]
            k['base'] = c['id']
            can.append(k)
    v, st = common.tlc_batch('Extras', VAL_CFG, cases + can, os.path.join(chk.workdir, 'validate'), tags=('DONE',),
                             min_per_shard=400, heap='2g')
    chk.add_model(st)
    chk.cov['canaries_total'] += len(can)
    for k in can:
        if v['DONE'][k['id']][0][2][1]:
            chk.cov['canaries_rejected'] += 1
        elif v['DONE'][k['base']][0][2][1]:
            # the observation the canary was derived from is itself rejected (e.g. it shows a name too many):
            # dropping one name from a wrong list may happen to give the right one - nothing to conclude
            chk.cov['canaries_total'] -= 1
        else:
            chk.machinery_error('canary accepted (a shown field went missing)')
    nrej = 0
    for c in cases:
        bad = v['DONE'][c['id']][0][2][1]
        if bad:
            nrej += 1
            chk.violation(sorted(bad)[0], 'clauses %s fail for %r' % (sorted(bad), meta[c['id']]), meta[c['id']])
    chk.cov['evaluations'] += len(cases)
    chk.cov['traces_validated_against_impl'] += len(cases)
    chk.stage('extras', instances=len(cases), rejected=nrej, states=st['distinct'])
    for c in cases[:: max(1, len(cases) // 3)][:3]:
        chk.sample(meta[c['id']])


def self_dependent_defaults(chk, cases, meta, genmod):
    """attrs factories that take the instance (`@x.default`): the declared default of a field depends
    on the instance, so it must be evaluated for EVERY instance. Several instances of the same class
    are printed one after another; `same` is computed against the instance's own default."""
    @attr.s
    class Span:
        start = attr.ib()
        length = attr.ib(default=1)
        end = attr.ib()
        tags = attr.ib(factory=list)

        @end.default
        def _end_default(self):
            return self.start + self.length

    Span.__module__ = 'verif_c17gen'
    Span.__qualname__ = 'Span'
    setattr(genmod, 'Span', Span)
    insts = [Span(5, 1), Span(5, 1, 2), Span(3, 4), Span(3, 4, 6), Span(5, 1, 6), Span(1, 1, 6), Span(3, 4, 7, ['t']),
             Span(0), Span(0, 1, 1)]
    for inst in insts + list(reversed(insts)):
        own_end = inst.start + inst.length
        fields = [{'dflt': 'none', 'repr': True, 'same': False},
                  {'dflt': 'value', 'repr': True, 'same': inst.length == 1},
                  {'dflt': 'factory', 'repr': True, 'same': inst.end == own_end},
                  {'dflt': 'factory', 'repr': True, 'same': inst.tags == []}]
        desc = {'library': 'attrs', 'definition': 'Span(start, length=1, end=Factory(start+length, takes_self), tags=list)',
                'instance': repr(inst)}
        try:
            with warnings.catch_warnings():
                warnings.simplefilter('ignore')
                out = P.pformat(inst, width=200)
            obs = pyterm.parse_output(out)
        except Exception as e:  # noqa
            chk.violation('C17.raises', 'printing %r raised %r' % (desc, e), desc)
            continue
        desc['output'] = out
        names = [{'start': 'f1', 'length': 'f2', 'end': 'f3', 'tags': 'f4'}.get(k, k) for k, _ in obs[3]] \
            if obs[0] == 'call' else ['<not a call>']
        try:
            back = eval(out, {'verif_c17gen': genmod})
            equal = type(back) is Span and back == inst
        except Exception:
            equal = False
        cid = len(cases) + 1
        cases.append({'id': cid, 'fields': fields, 'frozen': False, 'slots': False, 'names': names,
                      'callname_ok': obs[0] == 'call' and obs[1] == 'verif_c17gen.Span' and not obs[2], 'equal': bool(equal)})
        meta[cid] = desc


def nested_instances(chk, cases, meta, genmod):
    """Fields whose VALUES (and declared defaults) are themselves dataclass / attrs instances, directly and inside
    containers: each is printed as it would be on its own (a call of its class, not a dict of its fields), compared
    with its default as an instance, and the text reconstructs an equal object."""
    @dataclasses.dataclass
    class Leaf:
        a: int = 0
        b: list = dataclasses.field(default_factory=list)

    @dataclasses.dataclass(frozen=True)
    class FLeaf:
        a: int = 1
        b: str = 'x'

    @dataclasses.dataclass
    class Outer:
        first: object
        second: object = None
        third: Leaf = dataclasses.field(default_factory=Leaf)
        fourth: FLeaf = FLeaf()

    @attr.s
    class ALeaf:
        a = attr.ib(default=0)

    @attr.s
    class AOuter:
        first = attr.ib()
        second = attr.ib(default=None)
        third = attr.ib(factory=ALeaf)
        fourth = attr.ib(default=attr.Factory(lambda: [ALeaf(7)]))
    for c in (Leaf, FLeaf, Outer, ALeaf, AOuter):
        c.__module__ = 'verif_c17gen'
        c.__qualname__ = c.__name__
        setattr(genmod, c.__name__, c)
    dc = [Outer(1), Outer(Leaf(2, [3])), Outer([Leaf(), FLeaf(5)], {'k': Leaf(1)}), Outer(1, None, Leaf(), FLeaf()),
          Outer(1, None, Leaf(9)), Outer(1, None, Leaf(), FLeaf(2, 'y')), Outer((FLeaf(), FLeaf(3)), Outer(Leaf()))]
    at = [AOuter(1), AOuter(ALeaf(2)), AOuter([ALeaf()], {'k': ALeaf(1)}), AOuter(1, None, ALeaf(), [ALeaf(7)]),
          AOuter(1, None, ALeaf(4)), AOuter(1, None, ALeaf(), [ALeaf(8)]), AOuter(AOuter(ALeaf(1)))]
    for inst in dc + at:
        is_dc = dataclasses.is_dataclass(inst)
        cls = type(inst)
        if is_dc:
            fields = [{'dflt': 'none', 'repr': True, 'same': False},
                      {'dflt': 'value', 'repr': True, 'same': inst.second is None},
                      {'dflt': 'factory', 'repr': True, 'same': inst.third == Leaf()},
                      {'dflt': 'value', 'repr': True, 'same': inst.fourth == FLeaf()}]
        else:
            fields = [{'dflt': 'none', 'repr': True, 'same': False},
                      {'dflt': 'value', 'repr': True, 'same': inst.second is None},
                      {'dflt': 'factory', 'repr': True, 'same': inst.third == ALeaf()},
                      {'dflt': 'factory', 'repr': True, 'same': inst.fourth == [ALeaf(7)]}]
        desc = {'library': 'dataclasses' if is_dc else 'attrs', 'definition': cls.__name__ + ' with instance-valued fields',
                'instance': repr(inst)}
        for w in (200, 30):
            try:
                with warnings.catch_warnings(record=True) as wl:
                    warnings.simplefilter('always')
                    out = P.pformat(inst, width=w)
                obs = pyterm.parse_output(out)
            except Exception as e:  # noqa
                chk.violation('C17.raises', 'printing %r raised %r' % (desc, e), desc)
                continue
            if any('raised an exception' in str(x.message) for x in wl):
                chk.violation('C17.printer-failed', 'the %s printer failed for %r' % (desc['library'], desc['instance']), desc)
                continue
            d = dict(desc, output=out, width=w)
            names = [{'first': 'f1', 'second': 'f2', 'third': 'f3', 'fourth': 'f4'}.get(k, k) for k, _ in obs[3]] \
                if obs[0] == 'call' else ['<not a call>']
            try:
                back = eval(out, {'verif_c17gen': genmod})
                equal = type(back) is cls and back == inst
            except Exception:
                equal = False
            cid = len(cases) + 1
            cases.append({'id': cid, 'fields': fields, 'frozen': False, 'slots': False, 'names': names,
                          'callname_ok': obs[0] == 'call' and obs[1] == 'verif_c17gen.' + cls.__name__ and not obs[2],
                          'equal': bool(equal)})
            meta[cid] = d
            chk.nontrivial(('nested-instances', repr(inst), w))


def rng_width(chk):
    return chk.rng.choice([1, 10, 30, 79])


def check_c17(chk, args):
    call_shape(chk)
    extras(chk)
    chk.cov['rule'] = ('(1) pretty_call / pretty_call_alt with 0-3 positional and 0-3 keyword arguments (scalars, long '
                       'strings, sole list/dict/tuple, commented values; kwargs as pairs / OrderedDict / dict) for '
                       'builtin, module-level, nested and function callables x widths: TLC checks the call shape against '
                       'the stand-alone prints of the arguments; (2) EVERY dataclass / attrs class definition with <= 2 '
                       '(quick) / 3 (thorough) fields x default kind x repr x value relation x frozen x slots, enumerated '
                       'by TLC from Extras.tla, materialised and printed: keywords = Extras!Shown, evaluation reconstructs '
                       'when Reconstructible; distinct by (library, definition) / output')
    chk.assumptions += ['the expected call term is built from the parsed stand-alone prints of the arguments',
                        'generated classes are materialised with dataclasses.make_dataclass / attr.make_class (kw_only)']
