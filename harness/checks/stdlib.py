"""C07: bundled printers are total, and faithful for standard-library types.
spec/Stdlib.tla gives the boundary grids and the field-dropping arithmetic of the datetime
family (lemma checked by TLC, printed keyword lists validated by TLC); the remaining types
are explored with an eval cross-oracle."""
import collections
import datetime as DT
import enum
import functools
import json
import os
import pathlib
import types
import uuid
import warnings

import pytz

import common
import pyterm
import prettyprinter as P

CFG = 'CONSTANT Mode = "%s"\nINIT Init\nNEXT Next\n%sCHECK_DEADLOCK FALSE\n'


class Color(enum.Enum):
    RED = 1
    GREEN = 'g'


class Perm(enum.Flag):
    R = 1
    W = 2


Point = collections.namedtuple('Point', 'x y')
Single = collections.namedtuple('Single', 'only')


class MyErr(Exception):
    pass


ENV = {'datetime': DT, 'collections': collections, 'uuid': uuid, 'pathlib': pathlib, 'functools': functools,
       'types': types, 'pytz': pytz, 'checks': None, 'builtins': None}


def env():
    import checks.stdlib as me
    import checks
    e = dict(ENV)
    e['checks'] = checks
    checks.stdlib = me
    for n in ('ValueError', 'KeyError', 'OSError', 'Exception', 'int', 'list', 'dict', 'len', 'sorted', 'float',
              'set', 'frozenset', 'str'):
        e[n] = __builtins__[n] if isinstance(__builtins__, dict) else getattr(__builtins__, n)
    e['mappingproxy'] = types.MappingProxyType
    return e


def equal(a, b):
    if type(a) is not type(b):
        return False
    if isinstance(a, collections.deque):
        return list(a) == list(b) and a.maxlen == b.maxlen
    if isinstance(a, functools.partial):
        return a.func is b.func and a.args == b.args and a.keywords == b.keywords
    if isinstance(a, BaseException):
        return a.args == b.args
    if isinstance(a, collections.defaultdict):
        return a.default_factory is b.default_factory and dict(a) == dict(b)
    if isinstance(a, collections.ChainMap):
        return a.maps == b.maps
    if isinstance(a, types.MappingProxyType):
        return dict(a) == dict(b)
    if isinstance(a, collections.OrderedDict):
        return list(a.items()) == list(b.items())
    if isinstance(a, collections.Counter):
        # printed in most_common() order on purpose; Counter equality does not depend on insertion order
        return set(a.keys()) == set(b.keys()) and all(equal(a[k], b[k]) for k in a)
    if isinstance(a, DT.datetime):
        return a == b and a.utcoffset() == b.utcoffset() and a.fold == b.fold and \
            (a.tzinfo is None) == (b.tzinfo is None) and a.replace(tzinfo=None) == b.replace(tzinfo=None)
    if isinstance(a, DT.time):
        return a.replace(tzinfo=None) == b.replace(tzinfo=None) and a.fold == b.fold and \
            (a.tzinfo is None) == (b.tzinfo is None) and a.utcoffset() == b.utcoffset()
    if isinstance(a, DT.tzinfo):
        if a == b:
            return True
        # (a pytz zone object that is not the canonical instance of its zone compares by identity only: same zone
        # name, same offset and tzname then)
        return getattr(a, 'zone', None) == getattr(b, 'zone', None) and a.utcoffset(None) == b.utcoffset(None) \
            and a.tzname(None) == b.tzname(None)
    if isinstance(a, enum.Enum):
        return a is b
    if isinstance(a, (list, tuple)) and not hasattr(a, '_fields'):
        return len(a) == len(b) and all(equal(x, y) for x, y in zip(a, b))
    if isinstance(a, dict):
        return list(a.keys()) == list(b.keys()) and all(equal(a[k], b[k]) for k in a)
    return a == b


Reserved = collections.namedtuple('Reserved', ['fn', 'ctx', 'args', 'kwargs', 'value'])


def instances(rng, q):
    tzs = [None, DT.timezone.utc, DT.timezone(DT.timedelta(hours=2)), DT.timezone(DT.timedelta(hours=-5, minutes=-30), 'EST5'),
           DT.timezone(DT.timedelta(seconds=1)), pytz.utc, pytz.timezone('Europe/Helsinki'), pytz.timezone('US/Eastern')]
    out = []
    for tz in tzs[1:]:
        out.append(('tzinfo', tz))
    # zones that share offset and tzname with another zone but are not that zone; named fixed offsets of zero
    for z in ('Etc/UTC', 'UCT', 'Zulu', 'Etc/Universal', 'GMT', 'Etc/GMT', 'Etc/GMT+5', 'Etc/GMT-14', 'Europe/London',
              'Asia/Kolkata', 'Australia/Lord_Howe'):
        out.append(('tzinfo', pytz.timezone(z)))
        out.append(('datetime', DT.datetime(2020, 6, 1, 12, 0, tzinfo=pytz.timezone(z)) if z.startswith(('Etc', 'UCT', 'Zulu', 'GMT'))
                    else pytz.timezone(z).localize(DT.datetime(2020, 6, 1, 12, 0))))
    for tz in (DT.timezone(DT.timedelta(0), 'GMT'), DT.timezone(DT.timedelta(0), 'UTC'), DT.timezone(DT.timedelta(0), 'Z'),
               pytz.FixedOffset(0), pytz.FixedOffset(90), pytz.FixedOffset(-330)):
        out.append(('tzinfo', tz))
    for tz in tzs:
        for fold in (0, 1):
            for args in ((2020, 1, 2), (2020, 1, 2, 3), (2020, 1, 2, 0, 0, 5), (1, 1, 1, 0, 0, 0, 7), (9999, 12, 31, 23, 59, 59, 999999)):
                if tz is not None and hasattr(tz, 'localize') and tz is not pytz.utc:
                    try:
                        out.append(('datetime-aware', tz.localize(DT.datetime(*args))))
                    except Exception:
                        pass
                    continue
                out.append(('datetime', DT.datetime(*args, tzinfo=tz, fold=fold)))
        for args in ((0, 0), (1, 2, 3, 4), (23, 59, 59, 999999), (0, 0, 0, 1), (12,)):
            if tz is None or not hasattr(tz, 'localize') or tz is pytz.utc:
                out.append(('time', DT.time(*args, tzinfo=tz)))
                out.append(('time', DT.time(*args, tzinfo=tz, fold=1)))
    for d in (DT.date(1, 1, 1), DT.date(2020, 2, 29), DT.date(9999, 12, 31)):
        out.append(('date', d))
    for td in (DT.timedelta(0), DT.timedelta(days=-1), DT.timedelta(microseconds=-1), DT.timedelta.max, DT.timedelta.min,
               DT.timedelta(days=365), DT.timedelta(days=730, seconds=1), DT.timedelta(hours=-25, milliseconds=3)):
        out.append(('timedelta', td))
    out += [
        ('OrderedDict', collections.OrderedDict()), ('OrderedDict', collections.OrderedDict([('b', 1), ('a', [1, 2])])),
        ('defaultdict', collections.defaultdict(list)), ('defaultdict', collections.defaultdict(int, {'a': 1})),
        ('defaultdict', collections.defaultdict(None, {'k': [1]})),
        ('deque', collections.deque()), ('deque', collections.deque([1, 2, 3])), ('deque', collections.deque([1, 2], maxlen=2)),
        ('deque', collections.deque([], maxlen=0)), ('deque', collections.deque(range(30), maxlen=40)),
        ('Counter', collections.Counter()), ('Counter', collections.Counter('abracadabra')), ('Counter', collections.Counter({'x': -1})),
        ('ChainMap', collections.ChainMap()), ('ChainMap', collections.ChainMap({'a': 1}, {'b': 2})), ('ChainMap', collections.ChainMap({})),
        ('mappingproxy', types.MappingProxyType({})), ('mappingproxy', types.MappingProxyType({'a': [1]})),
        # heterogeneous / unorderable keys and tied counts
        ('Counter', collections.Counter([1, 'one'])), ('Counter', collections.Counter({None: 1, 'a': 1, (1, 2): 1})),
        ('Counter', collections.Counter([Color.RED, Color.GREEN, 1j, 2j])),
        ('OrderedDict', collections.OrderedDict([(1, 'a'), ('1', 'b'), (None, 'c')])),
        ('defaultdict', collections.defaultdict(list, {1: [1], 'k': [], None: [None]})),
        ('mappingproxy', types.MappingProxyType({1: 'a', 'b': 2, (1,): None})),
        ('ChainMap', collections.ChainMap({1: 1, 'a': 2}, {None: 3})),
        ('deque', collections.deque([1, 'a', None, (1,)], maxlen=7)),
        ('UUID', uuid.UUID(int=0)), ('UUID', uuid.UUID('12345678-1234-5678-1234-567812345678')),
        ('Enum', Color.RED), ('Enum', Color.GREEN), ('Enum', Perm.R),
        ('SimpleNamespace', types.SimpleNamespace()), ('SimpleNamespace', types.SimpleNamespace(b=1, a='x' * 40)),
        ('namedtuple', Point(1, 2)), ('namedtuple', Point([1], {'a': 2})), ('namedtuple', Single(None)),
        ('partial', functools.partial(int, '1', base=2)), ('partial', functools.partial(sorted, key=len)),
        ('partial', functools.partial(len)), ('partial', functools.partial(functools.partial(int, base=2), '11')),
        ('exception', OSError(2, 'msg', 'file.txt')), ('exception', KeyError()), ('exception', Exception('a' * 100, {'k': [1]})),
        ('namedtuple', Point(Point(1, 2), [Single('x' * 50)])),
        ('OrderedDict', collections.OrderedDict((('k%d' % i), i) for i in range(12))),
        ('Counter', collections.Counter({'a' * 30: 3, 'b': 3, 'c': 1})),
        ('deque', collections.deque(['x' * 30, 'y' * 30, 'z' * 30], maxlen=3)),
        ('SimpleNamespace', types.SimpleNamespace(z=types.SimpleNamespace(a=1), a=[types.SimpleNamespace()])),
        ('exception', ValueError()), ('exception', KeyError('k')), ('exception', OSError(2, 'msg')), ('exception', MyErr('a', [1])),
        ('purepath', pathlib.PurePosixPath('a/b/c')), ('purepath', pathlib.PurePosixPath('/')), ('purepath', pathlib.PurePosixPath('.')),
        ('purepath', pathlib.PureWindowsPath('C:/x/y')), ('purepath', pathlib.PurePosixPath('/'.join(['segment%d' % i for i in range(15)]))),
        ('purepath', pathlib.PosixPath('rel/path')),
        # keyword / attribute / field names that are also parameter names of the package's own helpers
        ('partial', functools.partial(dict, fn=9, ctx=1)), ('partial', functools.partial(dict, args=(1,), kwargs={'k': 1})),
        ('partial', functools.partial(dict, value=1, self=2, trailing_comment='t', type=int)),
        ('partial', functools.partial(dict, indent=1, width=2, depth=3, doc=4, cls=5, key=6, default=7)),
        ('SimpleNamespace', types.SimpleNamespace(fn=1, ctx=2, args=(3,), kwargs={'k': 4}, value=5, self=6, trailing_comment='c')),
        ('namedtuple', Reserved(1, 2, (3,), {'k': 4}, 5)),
        ('OrderedDict', collections.OrderedDict(fn=1, ctx=2, args=3)), ('defaultdict', collections.defaultdict(list, fn=[1], ctx=[2])),
        ('Counter', collections.Counter(fn=2, ctx=1, args=3)), ('exception', KeyError('fn', 'ctx')),
        # counts that cannot be ordered (most_common() raises; Counter.__repr__ itself falls back to insertion order)
        ('Counter', collections.Counter({'a': 1, 's': 'x'})), ('Counter', collections.Counter({'a': 1, 'b': None, 'c': 2})),
        ('Counter', collections.Counter({'a': 1j, 'b': 2})), ('Counter', collections.Counter({'k': [1]})),
        ('Counter', collections.Counter({'a': 2.5, 'b': 1, 'c': -3})), ('Counter', collections.Counter({'a': [1], 'b': [0, 1]})),
        # members that print with an explanatory comment (functions, classes, pytz zones) passed BY KEYWORD
        ('partial', functools.partial(dict, factory=collections.OrderedDict)), ('partial', functools.partial(sorted, [3, 1], key=len)),
        ('partial', functools.partial(int, base=2, conv=len)),
        ('SimpleNamespace', types.SimpleNamespace(convert=int, parse=len, strict=True)),
        ('SimpleNamespace', types.SimpleNamespace(cls=collections.OrderedDict)),
        ('namedtuple', Point(sorted, 'x')), ('namedtuple', Point(1, collections.deque)), ('namedtuple', Single(len)),
        ('OrderedDict', collections.OrderedDict([('f', len), ('c', dict)])), ('defaultdict', collections.defaultdict(list, {'f': sorted})),
        ('deque', collections.deque([len, 1], maxlen=4)), ('exception', ValueError(len, 'x')),
    ]
    return out


CONTEXTS = {
    'top': lambda x: x,
    'list-element': lambda x: [1, x],
    'dict-value': lambda x: {'k': x},
    'call-argument': lambda x: collections.deque([x]),
}


def unwrap(ctxname, v):
    if ctxname == 'top':
        return v
    if ctxname == 'list-element':
        return v[1]
    if ctxname == 'dict-value':
        return v['k']
    if ctxname == 'call-argument':
        return v[0]
    if ctxname == 'dict-key':
        return next(iter(v.keys()))


def expr(t):
    if t[0] == 'int':
        return ['n', int(t[1])]
    if t[0] == 'binop':
        return [t[1], expr(t[2]), expr(t[3])]
    raise ValueError('not an int expression: %r' % (t,))


POSITIONAL = {'datetime': ('year', 'month', 'day', 'hour', 'minute', 'second', 'microsecond', 'tzinfo'),
              'date': ('year', 'month', 'day'),
              'time': ('hour', 'minute', 'second', 'microsecond', 'tzinfo'),
              'timedelta': ('days', 'seconds', 'microseconds', 'milliseconds', 'minutes', 'hours', 'weeks')}


def family_cases(chk):
    """Grids emitted by TLC -> real objects -> printed keyword lists -> validated by TLC."""
    wd = os.path.join(chk.workdir, 'grid')
    r = common.run_tlc('Stdlib', CFG % ('emit', 'INVARIANT Lemma\n'), wd, workers=1, heap='2g')
    chk.add_tlc(r)
    if r.invariant_violated:
        chk.violation('C07.model', 'Stdlib.tla: Denote(View(x)) # x on the grid\n' + '\n'.join(r.out.splitlines()[-30:]), {})
    elif not r.ok:
        raise common.MachineryError('Stdlib emit failed:\n' + '\n'.join(r.out.splitlines()[-30:]))
    grid = [common.parse_tla_value(l) for l in r.lines('GRID')]
    chk.stage('tlc.model-check Stdlib (lemma + grid)', descriptors=len(grid), states=r.distinct)
    cases = []
    meta = {}
    e = env()
    for _, kind, d in grid:
        try:
            if kind == 'timedelta':
                obj = DT.timedelta(days=d[1], seconds=d[2], microseconds=d[3])
                if d[0]:
                    obj = -obj
            elif kind == 'datetime':
                obj = DT.datetime(*d)
            else:
                obj = DT.time(*d)
        except (OverflowError, ValueError):
            continue
        cid = len(cases) + 1
        desc = {'kind': kind, 'descriptor': d, 'object': repr(obj)}
        for w in (79, chk.rng.choice([1, 10, 20, 40])):
            out = print_total(chk, obj, desc, width=w)
            if out is None:
                break
            desc['output'] = out
            try:
                t = pyterm.parse_output(out)
                neg = False
                if t[0] == 'neg':
                    neg = True
                    t = t[1]
                assert t[0] == 'call' and t[1] == 'datetime.' + kind, t
                kws = [[k, expr(v)] for k, v in t[3]]
                if t[2]:
                    # positional arguments stand for the constructor's parameters in order (any prefix of them may be
                    # written positionally: the property is about what the expression evaluates to)
                    names = POSITIONAL[kind]
                    assert len(t[2]) <= len(names) and not (set(names[:len(t[2])]) & {k for k, _ in kws}), t
                    kws = [[n, expr(v)] for n, v in zip(names, t[2])] + kws
            except (pyterm.ParseError, AssertionError, ValueError) as ex:
                chk.violation('C07.faithful', 'unexpected shape of the printed %s: %r (%r)' % (kind, out, ex), desc)
                break
            cid = len(cases) + 1
            cases.append({'id': cid, 'kind': kind, 'd': list(d), 'kws': kws, 'neg': neg})
            meta[cid] = dict(desc)
            chk.nontrivial((kind, tuple(d)))
            try:
                back = eval(out, dict(e))
                if not equal(back, obj):
                    chk.violation('C07.faithful', '%r evaluates to %r, not to %r' % (out, back, obj), desc)
            except Exception as ex:  # noqa
                chk.violation('C07.faithful', '%r does not evaluate: %r' % (out, ex), desc)
    can = []
    for c in cases:
        if len(can) >= 15:
            break
        if c['kws']:
            k = dict(c)
            k['id'] = 10 ** 6 + len(can)
            k['kws'] = c['kws'][:-1]
            can.append(k)
    v, st = common.tlc_batch('Stdlib', CFG % ('validate', 'INVARIANT Report\n'), cases + can,
                             os.path.join(chk.workdir, 'family'), tags=('ACCEPT', 'MODEL'), min_per_shard=400, heap='2g')
    chk.add_model(st)
    chk.cov['canaries_total'] += len(can)
    for k in can:
        if k['id'] in v['ACCEPT']:
            chk.machinery_error('canary accepted (a printed field dropped)')
        else:
            chk.cov['canaries_rejected'] += 1
    nrej = nd = 0
    for c in cases:
        if c['id'] not in v['ACCEPT']:
            nrej += 1
            chk.violation('C07.faithful', 'the printed keywords %r do not denote %s%r: %r' % (
                c['kws'], c['kind'], c['d'], meta[c['id']]), meta[c['id']])
        if c['id'] not in v['MODEL']:
            nd += 1
            chk.drifted('Stdlib.tla view of %s%r differs from the printed keywords %r' % (c['kind'], c['d'], c['kws']))
    chk.cov['traces_validated_against_impl'] += len(cases)
    chk.stage('tlc.validate datetime family', printed=len(cases), rejected=nrej, drift=nd, states=st['distinct'])
    for c in cases[:: max(1, len(cases) // 3)][:3]:
        chk.sample(meta[c['id']])


def print_total(chk, v, desc, **cfg):
    chk.cov['evaluations'] += 1
    try:
        with warnings.catch_warnings(record=True) as wl:
            warnings.simplefilter('always')
            with common.time_limit(20):
                out = P.pformat(v, **cfg)
    except (Exception, common.Timeout) as e:  # noqa
        chk.violation('C07.total', 'pformat(%.200r, %r) raised %r' % (v, cfg, e), desc)
        return None
    bad = [str(x.message)[:400] for x in wl if 'raised an exception' in str(x.message)]
    if bad:
        chk.violation('C07.total', 'a bundled printer failed on an instance of its own type: pformat(%.200r, %r): %s'
                      % (v, cfg, bad[0]), desc)
        return None
    return out


def builtin_totality(chk):
    """No bundled printer for the built-in types ever fails internally (settings included)."""
    import values
    rng = chk.rng
    n = 300 if chk.tier == 'quick' else 6000
    for i in range(n):
        v = values.random_value(rng, depth=rng.choice([1, 2, 3, 4]))
        cfg = {'width': rng.choice([1, 5, 20, 79]), 'depth': rng.choice([None, 0, 1, 2]),
               'max_seq_len': rng.choice([None, 1, 2, 1000]), 'sort_dict_keys': rng.random() < 0.5,
               'indent': rng.choice([1, 4])}
        print_total(chk, v, {'value': repr(v)[:200], 'config': cfg}, **cfg)


def check_c07(chk, args):
    q = chk.tier == 'quick'
    rng = chk.rng
    family_cases(chk)
    e = env()
    n = 0
    for kind, obj in instances(rng, q):
        ctxs = dict(CONTEXTS)
        try:
            hash(obj)
            ctxs['dict-key'] = lambda x: {x: 1}
        except TypeError:
            pass
        for cname, wrap in ctxs.items():
            # (width, ribbon_width): None = the default ribbon (71); the last ones are wide enough for any instance to
            # fit on one line - "at every layout configuration" includes the ones where nothing has to break
            for w, rw in (((1, None), (20, 20), (79, None), (400, 400), (10 ** 5, 10 ** 5)) if q else
                          ((1, None), (10, 10), (20, None), (40, 40), (79, None), (200, None), (200, 200), (400, 400),
                           (10 ** 5, 10 ** 5))):
                v = wrap(obj)
                desc = {'type': kind, 'object': repr(obj)[:200], 'context': cname, 'width': w, 'ribbon_width': rw}
                out = print_total(chk, v, desc, width=w, **({} if rw is None else {'ribbon_width': rw}))
                if out is None:
                    continue
                n += 1
                desc['output'] = out
                chk.nontrivial((kind, repr(obj), cname))
                try:
                    back = eval('(' + out + '\n)', dict(e))
                    ok = equal(unwrap(cname, back), obj) and type(back) is type(v)
                except Exception as ex:  # noqa
                    ok = False
                    desc['eval_error'] = repr(ex)[:200]
                if not ok:
                    chk.violation('C07.faithful', 'the printed %s does not reconstruct an equal object: %r' % (kind, desc), desc)
        # the settings that are not about the page: none of them may make a bundled printer fail or change what the text denotes
        # (limits far above every size; an explicit 'no limit')
        for cname in ('top', 'list-element') if q else tuple(ctxs)[:4]:
            if cname not in ctxs:
                continue
            for extra in ({'max_seq_len': None}, {'max_seq_len': 10 ** 6, 'depth': 50}, {'depth': None, 'indent': 2},
                          {'max_seq_len': None, 'depth': None, 'width': 30}, {'sort_dict_keys': True},
                          {'sort_dict_keys': True, 'width': 20, 'indent': 2}):
                v = ctxs[cname](obj)
                desc = {'type': kind, 'object': repr(obj)[:200], 'context': cname, 'settings': extra}
                out = print_total(chk, v, desc, **extra)
                if out is None:
                    continue
                n += 1
                desc['output'] = out
                try:
                    back = eval('(' + out + '\n)', dict(e))
                    ok = equal(unwrap(cname, back), obj) and type(back) is type(v)
                except Exception as ex:  # noqa
                    ok = False
                    desc['eval_error'] = repr(ex)[:200]
                if not ok:
                    chk.violation('C07.faithful', 'the printed %s does not reconstruct an equal object: %r' % (kind, desc), desc)
    builtin_totality(chk)
    # spec -> code: Printers!PStd (the container printers of pretty_stdlib.py) predicts the exact text (DRIFT only)
    from checks import values_checks as VC
    bound = []
    for kind, obj in instances(rng, q):
        if kind in ('OrderedDict', 'deque', 'Counter', 'mappingproxy', 'defaultdict', 'ChainMap', 'SimpleNamespace', 'namedtuple',
                    'exception'):
            bound += [obj, [obj, 1], {'k': obj}]
    VC.printers_binding(chk, bound, name='stdlib_containers', per_value=2 if q else 4)
    chk.cov['rule'] = ('(a) datetime / time / timedelta descriptors from the boundary grids of Stdlib.tla (emitted by TLC), '
                       'printed keyword lists validated by TLC against the denotation; (b) instances of every '
                       'standard-library type with a bundled printer (aware datetimes with fixed / named / pytz zones and '
                       'fold, extreme timedeltas, empty / bounded deques, ...) x nesting contexts x widths, evaluated with '
                       'the modules in scope and compared with a per-type equality; (c) random built-in values under '
                       'random settings for totality; non-trivial / distinct = (type, instance, context)')
    chk.assumptions += ['faithfulness outside the datetime family is decided by Python eval + per-type equality '
                        '(deque incl. maxlen, partial by func/args/keywords, exceptions by type+args, aware datetimes by '
                        'instant, offset and fold)', 'composite Flag values and non-constructible struct sequences are not judged']
    chk.stage('stdlib instances', printed=n)
