"""C10 (max_seq_len) and C11 (depth), decided with spec/PyTerm.tla via TermTrace.tla."""
import collections
import itertools
import os
import re
import warnings

import common
import pyterm
import prettyprinter as P

CFG = "INIT Init\nNEXT Next\nINVARIANT Report\nCHECK_DEADLOCK FALSE\n"
KINDS = ['list', 'tuple', 'set', 'frozenset', 'dict']
NOTICE = re.compile(r'\.\.\.and (\d+) more elements')


class Fresh:
    def __init__(self):
        self.n = 0

    def leaf(self, rng, hashable_only=False):
        self.n += 1
        return self.n if rng.random() < 0.6 else 's%d' % self.n


def tree(rng, depth, fresh, maxlen=4, hashable=False):
    if depth == 0 or rng.random() < 0.25:
        return fresh.leaf(rng)
    k = rng.choice(['tuple', 'frozenset'] if hashable else KINDS)
    n = rng.choice([0, 1, 2, 3, maxlen])
    if k == 'list':
        return [tree(rng, depth - 1, fresh, maxlen) for _ in range(n)]
    if k == 'tuple':
        return tuple(tree(rng, depth - 1, fresh, maxlen, hashable) for _ in range(n))
    if k in ('set', 'frozenset'):
        items = [tree(rng, depth - 1, fresh, maxlen, True) for _ in range(n)]
        return set(items) if k == 'set' else frozenset(items)
    d = {}
    for _ in range(n):
        key = tree(rng, 1, fresh, maxlen, True) if rng.random() < 0.2 else fresh.leaf(rng)
        d[key] = tree(rng, depth - 1, fresh, maxlen)
    return d


def systematic_trees():
    """Every container kind at every length 0..4, alone and nested once in every kind."""
    out = []
    fresh = [0]

    def leaves(n, strs=False):
        r = []
        for _ in range(n):
            fresh[0] += 1
            r.append(('s%d' % fresh[0]) if strs else fresh[0])
        return r

    def mk(kind, items):
        if kind == 'list':
            return list(items)
        if kind == 'tuple':
            return tuple(items)
        if kind == 'set':
            return set(items)
        if kind == 'frozenset':
            return frozenset(items)
        return {k: v for k, v in zip(items, leaves(len(items)))}
    for kind in KINDS:
        for n in range(0, 5):
            out.append(mk(kind, leaves(n, strs=(n % 2 == 0))))
    for outer in ('list', 'tuple', 'dict'):
        for inner in KINDS:
            for n in (0, 1, 3):
                inner_v = mk(inner, leaves(n))
                if outer == 'dict':
                    out.append({'k': inner_v, 'j': mk(inner, leaves(2))})
                else:
                    out.append(mk(outer, [inner_v, mk(inner, leaves(4))]))
    return out


Pair = collections.namedtuple('Pair', ['left', 'right'])


class Box:
    """a user type printed with pretty_call(ctx, Box, *items, tag=...)"""

    def __init__(self, *items, tag=None):
        self.items, self.tag = items, tag


@P.register_pretty(Box)
def _pretty_box(v, ctx):
    return P.pretty_call(ctx, Box, *v.items, tag=v.tag)


pyterm.CALL_VALUES[Box] = lambda v: ('checks.limits.Box', v.items, [('tag', v.tag)])


def call_trees(rng, n):
    """Trees that also contain instances of types printed as calls - namedtuples, SimpleNamespace, a user type with a
    pretty_call printer: they are containers too (their fields are nested one level deeper)."""
    import types
    fresh = Fresh()

    def t(depth):
        if depth == 0 or rng.random() < 0.2:
            return fresh.leaf(rng)
        k = rng.choice(['list', 'tuple', 'dict', 'pair', 'ns', 'box', 'pair', 'box'])
        if k == 'list':
            return [t(depth - 1) for _ in range(rng.choice([1, 2, 3]))]
        if k == 'tuple':
            return tuple(t(depth - 1) for _ in range(rng.choice([1, 2])))
        if k == 'dict':
            return {fresh.leaf(rng): t(depth - 1) for _ in range(rng.choice([1, 2]))}
        if k == 'pair':
            return Pair(t(depth - 1), t(depth - 1))
        if k == 'ns':
            return types.SimpleNamespace(b=t(depth - 1), a=fresh.leaf(rng))
        return Box(*[t(depth - 1) for _ in range(rng.choice([0, 1, 2]))], tag=t(depth - 1))
    out = [Pair(1, [2, (3,)]), [4, Pair(5, 6)], [[Pair([7, [8]], {9: 10})], 11], types.SimpleNamespace(x=[12], y=13),
           Box(14, [15], tag={16: Pair(17, 18)}), {19: Box(tag=[20])}]
    for _ in range(n):
        out.append(t(rng.choice([1, 2, 3, 4])))
    return out


def height(v):
    import types
    if isinstance(v, Box):
        return 1 + max([0] + [height(x) for x in v.items] + [height(v.tag)])
    if isinstance(v, types.SimpleNamespace):
        return 1 + max([0] + [height(x) for x in v.__dict__.values()])
    if isinstance(v, dict):
        return 1 + max([0] + [max(height(k), height(x)) for k, x in v.items()])
    if isinstance(v, (list, tuple, set, frozenset)):
        return 1 + max([0] + [height(x) for x in v])
    return 0


def maxlen_of(v):
    if isinstance(v, dict):
        return max([len(v)] + [max(maxlen_of(k), maxlen_of(x)) for k, x in v.items()])
    if isinstance(v, (list, tuple, set, frozenset)):
        return max([len(v)] + [maxlen_of(x) for x in v])
    return 0


def sortable(v):
    """All dicts in v have mutually comparable keys (so that key sorting is specified)."""
    if isinstance(v, dict):
        try:
            sorted(v.keys())
        except TypeError:
            return False
        return all(sortable(k) and sortable(x) for k, x in v.items())
    if isinstance(v, (list, tuple, set, frozenset)):
        return all(sortable(x) for x in v)
    return True


def safe_print(chk, prop, v, desc, **cfg):
    try:
        with warnings.catch_warnings(record=True) as wl:
            warnings.simplefilter('always')
            with common.time_limit(20):
                out = P.pformat(v, **cfg)
    except (Exception, common.Timeout) as e:  # noqa
        chk.violation(prop + '.raises', 'pformat(%.200r, %r) raised %r' % (v, cfg, e), desc)
        return None
    msgs = [str(x.message) for x in wl]
    if any('raised an exception' in m for m in msgs):
        chk.violation(prop + '.printer-failed', 'pformat(%.200r, %r): a bundled printer failed and fell back to repr: %s'
                      % (v, cfg, msgs[0][:300]), desc)
        return None
    if msgs:
        desc['warnings'] = [m[:100] for m in msgs]
    return out


def universe(chk, n_random, depth=3):
    rng = chk.rng
    vals = systematic_trees()
    for _ in range(n_random):
        vals.append(tree(rng, rng.choice([1, 2, depth]), Fresh()))
    return vals


# ---------------------------------------------------------------------------

def with_comments(rng, v, top=True):
    """The same tree with comment(x, 'note') / trailing_comment(x, 'tail') wrappers on list / tuple items and dict
    values (not on set members: the wrappers would change the iteration order). Comments are inert, so the
    truncated value and the notices are those of the plain tree."""
    t = type(v)
    if t is list:
        w = [with_comments(rng, x, False) for x in v]
    elif t is tuple:
        w = tuple(with_comments(rng, x, False) for x in v)
    elif t is dict:
        w = {k: with_comments(rng, x, False) for k, x in v.items()}
    else:
        return P.comment(v, 'note') if (not top and rng.random() < 0.3) else v
    r = rng.random()
    if r < 0.45:
        w = P.comment(w, 'note')
    elif r < 0.6 and len(v):
        w = P.trailing_comment(w, 'tail')
    return w


def check_c10(chk, args):
    q = chk.tier == 'quick'
    rng = chk.rng
    vals = universe(chk, 120 if q else 2500)
    # sets whose members collide in the hash table, so that a COPY of the set (built at another table size) iterates
    # in another order than the set itself: "the first N elements" are those of the value's own iteration order
    coll = [frozenset([16, 1, 2, 3, 4, 5]), {16, 1, 2, 3, 4, 5}, frozenset([8, 1, 2, 3, 4]),
            frozenset([32, 1, 2, 3, 4, 5, 6, 7, 8, 9, 10]), frozenset([64, 33, 1, 2, 3, 4, 5])]
    vals += coll + [[coll[0]], {'k': coll[0], 'j': coll[3]}, (coll[4], coll[1])]
    cases = {}
    meta = {}
    nprints = 0
    printed = [(v, v) for v in vals]
    # truncation x comments: the same trees with comment wrappers (dict values in particular are rendered a second
    # time, lazily, when their comment goes on a line of its own)
    printed += [(with_comments(rng, v), v) for v in vals[::2] if type(v) in (list, tuple, dict) and maxlen_of(v) >= 1]
    for vi, (pv, v) in enumerate(printed):
        ml = maxlen_of(v)
        for N in list(range(1, ml + 2)) + [None]:
            for w in ((1, 20, 79) if not q else (rng.choice([1, 20]), 79)):
                for srt in (False, True):
                    if srt and not sortable(v):
                        continue
                    nprints += 1
                    cfg = {'width': w, 'max_seq_len': N, 'sort_dict_keys': srt}
                    desc = {'value': repr(v)[:300], 'config': cfg, 'commented': pv is not v}
                    out = safe_print(chk, 'C10', pv, desc, **cfg)
                    if out is None:
                        continue
                    desc['output'] = out
                    if N is None:
                        if 'warnings' in desc:
                            chk.violation('C10.none', 'max_seq_len=None produced a warning: %r' % (desc,), desc)
                        big = safe_print(chk, 'C10', pv, dict(desc), width=w, max_seq_len=ml + 1, sort_dict_keys=srt)
                        if big is not None and big != out:
                            chk.violation('C10.none', 'max_seq_len=None differs from a limit larger than every '
                                          'container: %r vs %r for %.200r' % (out, big, v), desc)
                        effN = ml + 1
                    else:
                        effN = N
                    key = (vi, out, srt, effN)
                    if key in cases:
                        continue
                    try:
                        obs = pyterm.parse_output(out)
                        # a notice may be wrapped over several '#' lines: read the comments as one word stream
                        words = ' '.join(' '.join(c.lstrip('#').split()) for c in pyterm.comment_tokens(out))
                        notices = [int(x) for x in NOTICE.findall(words)]
                        residue = NOTICE.sub('', words).strip()
                        if pv is not v:
                            residue = ' '.join(x for x in residue.split() if x not in ('note', 'tail', '.'))
                    except pyterm.ParseError as e:
                        chk.violation('C10.syntax', 'not an expression (%s): %r' % (e, desc), desc)
                        continue
                    if residue:
                        chk.violation('C10.notice', 'unexpected comment in the output: %r' % (desc,), desc)
                    cid = len(cases) + 1
                    cases[key] = {'id': cid, 'mode': 'trunc', 'obs': obs, 'val': pyterm.value_term(v, sort=srt),
                                  'subs': [], 'N': effN, 'notices': notices}
                    meta[cid] = desc
                    if N is not None and N <= ml and ml > 0:
                        chk.nontrivial((vi, N, out))
    none_is_unlimited(chk)
    limits_from_defaults(chk, 'C10')
    # spec -> code: Printers.tla predicts the exact truncated text, '...and N more elements' comment included
    from checks import values_checks as VC
    VC.printers_binding(chk, vals, msls=(1, 1, 2, 3, 1000), name='truncation', per_value=2 if q else 4)
    VC.printers_binding(chk, [pv for pv, v in printed if pv is not v], msls=(1, 1, 2, 3, 1000), name='truncation_x_comments',
                        per_value=2 if q else 4)
    caselist = list(cases.values())
    can = []
    for c in caselist[:: max(1, len(caselist) // 20)][:20]:
        k = dict(c)
        k['id'] = len(caselist) + len(can) + 1
        k['notices'] = list(c['notices']) + [99]
        can.append(k)
    v, st = common.tlc_batch('TermTrace', CFG, caselist + can, os.path.join(chk.workdir, 'terms'), tags=('ACCEPT',),
                             min_per_shard=300, heap='2g')
    chk.add_model(st)
    acc = v['ACCEPT']
    chk.cov['canaries_total'] = len(can)
    for k in can:
        if k['id'] in acc:
            chk.machinery_error('canary accepted (spurious truncation notice)')
        else:
            chk.cov['canaries_rejected'] += 1
    nrej = 0
    for c in caselist:
        if c['id'] not in acc:
            nrej += 1
            d = meta[c['id']]
            chk.violation('C10.truncate', 'output does not denote Truncate(value, %s) with exactly the notices '
                          '{len - N}: notices=%r %r' % (c['N'], c['notices'], d), d)
    chk.cov['evaluations'] = nprints
    chk.cov['traces_validated_against_impl'] = len(caselist)
    chk.cov['rule'] = ('container trees (every kind x length 0..4, nested once in every kind, random trees to depth 3) x '
                       'max_seq_len in 1..maxlen+1 and None x widths x sort; TLC judges Denote(obs) = Truncate(value, N) '
                       'and notices = Dropped(value, N) (PyTerm.tla); non-trivial = some container is actually truncated; '
                       'distinct by (value, N, output)')
    for c in caselist[:: max(1, len(caselist) // 5)][:5]:
        chk.sample(meta[c['id']])
    chk.stage('tlc.validate', prints=nprints, distinct=len(caselist), rejected=nrej, states=st['distinct'])


def none_is_unlimited(chk):
    """max_seq_len=None must not truncate whatever the DEFAULT limit is: containers longer than the
    stock default (1000), and short containers after set_default_config(max_seq_len=1)."""
    big = [list(range(1003)), tuple(range(1001)), {i: i for i in range(1002)}, set(range(1001)), [[0] * 1001, 'x']]
    for v in big:
        desc = {'value': '%s of %d elements' % (type(v).__name__, len(v)), 'config': {'max_seq_len': None}}
        out = safe_print(chk, 'C10', v, desc, max_seq_len=None, width=79)
        ref = safe_print(chk, 'C10', v, dict(desc), max_seq_len=5000, width=79)
        chk.cov['evaluations'] += 2
        if out is not None and ref is not None and (out != ref or 'more elements' in out):
            chk.violation('C10.none', 'max_seq_len=None truncated a %s of %d elements (or differs from max_seq_len=5000)'
                          % (type(v).__name__, len(v)), desc)
    saved = P._default_config
    try:
        P.set_default_config(max_seq_len=1)
        for v in ([1, 2, 3], {'a': [1, 2], 'b': (3, 4, 5)}, (1, {2, 3})):
            desc = {'value': repr(v), 'config': {'max_seq_len': None, 'default max_seq_len': 1}}
            out = safe_print(chk, 'C10', v, desc, max_seq_len=None, width=79)
            ref = safe_print(chk, 'C10', v, dict(desc), max_seq_len=10, width=79)
            chk.cov['evaluations'] += 2
            if out is not None and ref is not None and (out != ref or 'more elements' in out):
                chk.violation('C10.none', 'an explicit max_seq_len=None fell back to the default limit 1: %r' % (out,), desc)
    finally:
        P._default_config = saved


def limits_from_defaults(chk, prop):
    """The limit may come from the session defaults instead of the call: after every set_default_config(<limit>=L) a
    call that does not pass the limit must print what the call passing L explicitly prints - also when calls with
    the same arguments were made under an earlier default - and an explicit None must still mean 'no limit'."""
    key = 'max_seq_len' if prop == 'C10' else 'depth'
    vals = [[1, 2, 3, 4, [5, 6, 7, (8, 9, 10)]], {'a': [1, 2, [3, [4, [5]]]], 'b': (1, 2, 3), 'c': {1, 2, 3}},
            ([[[[1, 2], 3], 4], 5], {'k': {'k': {'k': [1, 2, 3]}}})]
    saved = P._default_config
    try:
        P._default_config = dict(saved)
        for L in (3, 1, 2, None, 1, 4, None, 2):
            P.set_default_config(**{key: L})
            for v in vals:
                for cfg in ({}, {'width': 30}, {'width': 79, 'sort_dict_keys': True}):
                    desc = {'value': repr(v), 'default ' + key: L, 'config': cfg}
                    out = safe_print(chk, prop, v, desc, **cfg)
                    ref = safe_print(chk, prop, v, dict(desc), **dict(cfg, **{key: L}))
                    free = safe_print(chk, prop, v, dict(desc), **dict(cfg, **{key: None}))
                    top = safe_print(chk, prop, v, dict(desc), **dict(cfg, **{key: 1000}))
                    chk.cov['evaluations'] += 4
                    if None in (out, ref, free, top):
                        continue
                    if out != ref:
                        chk.violation(prop + '.default', 'after set_default_config(%s=%r) a call without %s prints %r, the call '
                                      'passing %s=%r prints %r' % (key, L, key, out, key, L, ref), dict(desc, output=out, expected=ref))
                    if free != top:
                        chk.violation(prop + '.none', 'with the default %s=%r an explicit %s=None prints %r, a limit above every '
                                      'size prints %r' % (key, L, key, free, top), dict(desc, output=free, expected=top))
                    chk.nontrivial(('defaults', key, L, repr(v), repr(cfg)))
    finally:
        P._default_config = saved


# ---------------------------------------------------------------------------
EMPTY_AT_CUT = 'empty-container-at-cut-level'
STRKEY_AT_CUT = 'str-key-at-cut-level'


def depth_none_is_unlimited(chk):
    """depth=None (and the stock default) cuts nothing however tall the tree is: trees far taller than the
    generated ones, printed with depth=None, with no depth argument and with depth=height+1, must give the same
    text, show the innermost leaf and no placeholder. Heights up to what the interpreter's recursion limit lets
    the unchanged printer reach (the limit is raised for the tallest ones)."""
    import sys
    deep_cases = []
    wraps = {'lists': lambda v, i: [v], 'dicts': lambda v, i: {'k': v}, 'tuples': lambda v, i: (v, i),
             'mixed': lambda v, i: ([v], {'k': v}, (v,), [i, v])[i % 4]}
    old = sys.getrecursionlimit()
    try:
        for h, limit in ((12, None), (35, None), (66, None), (70, None), (150, 40000), (400, 40000)):
            if limit:
                sys.setrecursionlimit(limit)
            for name, wrap in wraps.items():
                v = 100001
                for i in range(h):
                    v = wrap(v, i)
                desc = {'value': '%d nested %s around the leaf 100001' % (h, name), 'height': h}
                outs = {}
                for label, cfg in (('depth=None', {'depth': None}), ('no depth argument', {}),
                                   ('depth=height+1', {'depth': h + 1}), ('depth=height+50', {'depth': h + 50})):
                    chk.cov['evaluations'] += 1
                    try:
                        with warnings.catch_warnings(record=True) as wl:
                            warnings.simplefilter('always')
                            outs[label] = P.pformat(v, width=79, **cfg)
                    except RecursionError:
                        outs[label] = RecursionError     # outside "the value can be printed at all"
                    except Exception as e:  # noqa
                        chk.violation('C11.raises', 'pformat raised %r for %r with %s' % (e, desc, label), desc)
                        outs[label] = None
                texts = {k: o for k, o in outs.items() if isinstance(o, str)}
                for label, o in texts.items():
                    if '100001' not in o or '...' in o:
                        chk.violation('C11.none', '%s cut a tree of height %d: the leaf nested in %d containers is missing '
                                      'or a placeholder is shown (%s)' % (label, h, h, desc['value']),
                                      dict(desc, output=o[:2000], config=label))
                if len(set(texts.values())) > 1:
                    chk.violation('C11.above-height', 'outputs for depth=None / default / depth > height differ on a tree of '
                                  'height %d (%s): %r' % (h, desc['value'], {k: len(o) for k, o in texts.items()}), desc)
                if texts:
                    chk.nontrivial(('deep', h, name))
                if h <= 70 and isinstance(outs.get('depth=None'), str):
                    # and TLC judges the depth=None text against PyTerm!CutSyn(value, height + 1) (= nothing cut)
                    try:
                        deep_cases.append(({'mode': 'cut', 'obs': pyterm.parse_output(outs['depth=None']),
                                            'val': pyterm.value_term(v), 'subs': [], 'N': h + 1, 'notices': []},
                                           dict(desc, config={'depth': None}, output=outs['depth=None'][:3000])))
                    except pyterm.ParseError as e:
                        chk.violation('C11.syntax', 'not an expression (%s): %r' % (e, desc), desc)
    finally:
        sys.setrecursionlimit(old)
    return deep_cases


def check_c11(chk, args):
    q = chk.tier == 'quick'
    rng = chk.rng
    deep = depth_none_is_unlimited(chk)
    limits_from_defaults(chk, 'C11')
    vals = universe(chk, 150 if q else 3000, depth=4)
    cases = {}
    meta = {}
    nprints = 0
    vals = vals + call_trees(rng, 60 if q else 1500)
    printed = [(v, v) for v in vals]
    # depth x comments: the same trees with comment wrappers (a commented dict value is rendered a second time, lazily,
    # with a context of its own); comments are inert, so the cut is that of the plain tree
    printed += [(with_comments(rng, v), v) for v in vals[::2] if type(v) in (list, tuple, dict) and height(v) >= 2]
    for vi, (pv, v) in enumerate(printed):
        h = height(v)
        base = safe_print(chk, 'C11', pv, {'value': repr(v)[:300], 'config': {'depth': None}}, depth=None, width=79)
        for d in list(range(0, h + 3)):
            for w in ((79,) if q and pv is v else (1, 30, 79)):
                nprints += 1
                cfg = {'depth': d, 'width': w}
                desc = {'value': repr(v)[:300], 'config': cfg, 'commented': pv is not v}
                out = safe_print(chk, 'C11', pv, desc, **cfg)
                if out is None:
                    continue
                desc['output'] = out
                if d > h and w == 79 and base is not None and out != base:
                    chk.violation('C11.above-height', 'depth=%d > height %d but output differs from depth=None: %r vs %r'
                                  % (d, h, out, base), desc)
                key = (vi, out, d)
                if key in cases:
                    continue
                try:
                    obs = pyterm.parse_output(out)
                except pyterm.ParseError as e:
                    chk.violation('C11.syntax', 'not an expression (%s): %r' % (e, desc), desc)
                    continue
                cid = len(cases) + 1
                cases[key] = {'id': cid, 'mode': 'cut', 'obs': obs, 'val': pyterm.value_term(v), 'subs': [],
                              'N': d, 'notices': []}
                meta[cid] = desc
                if 0 < d <= h:
                    chk.nontrivial((vi, d))
    for c, d in deep:
        cid = len(cases) + 1
        c['id'] = cid
        cases[('deep', cid)] = c
        meta[cid] = d
    caselist = list(cases.values())
    v, st = common.tlc_batch('TermTrace', CFG, caselist, os.path.join(chk.workdir, 'terms'), tags=('CUT',),
                             min_per_shard=300, heap='2g')
    chk.add_model(st)
    f_empty = chk.match_finding('C11.cut', EMPTY_AT_CUT)
    f_key = chk.match_finding('C11.cut', STRKEY_AT_CUT)
    nrej = nknown = 0
    for c in caselist:
        d = meta[c['id']]
        lines = v['CUT'].get(c['id'])
        if not lines:
            chk.machinery_error('no verdict for a C11 case')
            continue
        variants = {tuple(x) for x in lines[0][2][1]}
        if (False, False) in variants:
            continue
        if variants:
            # the output is explained only with a recorded deviation
            need_empty = all(re_ for re_, rk in variants)
            need_key = all(rk for re_, rk in variants)
            ok = True
            if need_empty:
                if f_empty:
                    chk.known(f_empty)
                else:
                    ok = False
            if need_key:
                if f_key:
                    chk.known(f_key)
                else:
                    ok = False
            if ok and (need_empty or need_key):
                nknown += 1
                continue
        nrej += 1
        chk.violation('C11.cut', 'output is not the unlimited output with exactly the nodes nested in >= %d containers '
                      'replaced by their placeholders: %r' % (c['N'], d), d)
    chk.cov['evaluations'] += nprints
    chk.cov['traces_validated_against_impl'] = len(caselist)
    chk.cov['rule'] = ('container trees of height <= 4 with uniquely identifiable int/str leaves (every kind x length, '
                       'nested, random) x depth in 0..height+2 x widths; TLC compares the parsed output with '
                       'PyTerm!CutSyn(value, d); non-trivial = 0 < d <= height; distinct by (value, d, output)')
    for c in caselist[:: max(1, len(caselist) // 5)][:5]:
        chk.sample(meta[c['id']])
    chk.stage('tlc.validate', prints=nprints, distinct=len(caselist), rejected=nrej, known_finding=nknown,
              states=st['distinct'])
