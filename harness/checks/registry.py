"""C15: printer dispatch follows the class hierarchy for every registration history.

spec/Registry.tla (abstract rule + concrete transcription), spec/RegistryMC.tla (all
reachable states; emits histories), spec/RegistryTrace.tla (validates executions of the
real module).
"""
import gc
import io
import json
import os
import re
import warnings

import common
import prettyprinter as P

PP = common.pp_module('prettyprinter.prettyprinter')

CLASSES = ['A', 'B', 'C', 'M', 'D', 'E', 'F']
FLAGS = [(cs, cd, rd) for cs in (False, True) for cd in (False, True) for rd in (False, True)]

MC_CFG = """CONSTANTS NP = %(NP)d
 MaxPreds = %(MAXP)d
 Emit = %(EMIT)s
 HistLen = %(HL)d
 Lattice = "%(LAT)s"
INIT Init
NEXT Next
%(EXTRA)s
"""
INVS = "INVARIANT PrintOK\nINVARIANT Stable\nINVARIANT IsRegOK\nINVARIANT NoEffect\nINVARIANT PendingIsNewer\n"
TRACE_CFG = 'CONSTANT Lattice = "full"\nINIT Init\nNEXT Next\nINVARIANT Done\nCHECK_DEADLOCK FALSE\n'


def registry_dict():
    for r in gc.get_referents(PP.pretty_dispatch.registry):
        if isinstance(r, dict):
            return r
    raise common.MachineryError('cannot reach the singledispatch registry')


def _p1(value, ctx):
    return 'P1'


def _p2(value, ctx):
    return 'P2'


PRINTERS = {1: _p1, 2: _p2}
PRINTER_ID = {_p1: 1, _p2: 2}
_counter = [0]


class World:
    """Freshly minted classes A; B(A); C(B); M; D(B, M); E(A); F(B, E) with unique qualified names."""

    def __init__(self):
        _counter[0] += 1
        mod = 'verif_reg_%d' % _counter[0]
        ns = {'__module__': mod, '__repr__': lambda self: 'REPR'}
        A = type('A', (), dict(ns))
        B = type('B', (A,), dict(ns))
        C = type('C', (B,), dict(ns))
        M = type('M', (), dict(ns))
        D = type('D', (B, M), dict(ns))
        E = type('E', (A,), dict(ns))
        F = type('F', (B, E), dict(ns))     # a diamond over A: MRO F, B, E, A
        assert [k.__name__ for k in F.__mro__[:-1]] == ['F', 'B', 'E', 'A']
        self.cls = {'A': A, 'B': B, 'C': C, 'M': M, 'D': D, 'E': E, 'F': F}
        self.mod = mod
        self.preds = {'q1': (lambda x, A=A: isinstance(x, A)), 'q2': (lambda x, M=M: isinstance(x, M))}
        self.base_preds = len(PP._PREDICATE_REGISTRY)

    def key(self, c):
        return '%s.%s' % (self.mod, c)

    def projection(self):
        reg = PP.pretty_dispatch.registry
        direct = {}
        deferred = {}
        for c, k in self.cls.items():
            if k in reg:
                fn = reg[k]
                inner = getattr(fn, 'args', (None,))[0] if hasattr(fn, 'args') else None
                direct[c] = PRINTER_ID.get(inner, 9)
            else:
                direct[c] = 0
            d = PP._DEFERRED_DISPATCH_BY_NAME.get(self.key(c))
            deferred[c] = 0 if d is None else PRINTER_ID.get(d, 9)
        return {'direct': direct, 'deferred': deferred,
                'npreds': len(PP._PREDICATE_REGISTRY) - self.base_preds}

    def cleanup(self):
        rd = registry_dict()
        for k in self.cls.values():
            rd.pop(k, None)
        for c in self.cls:
            PP._DEFERRED_DISPATCH_BY_NAME.pop(self.key(c), None)
        del PP._PREDICATE_REGISTRY[self.base_preds:]
        PP.pretty_dispatch._clear_cache()

    def run(self, ops):
        """Execute ops on the real module; returns the events (ops + observations)."""
        events = []
        for op in ops:
            e = {'op': op['op'], 'c': op.get('c', 'A'), 'p': op.get('p', 0), 'q': op.get('q', 'q1'),
                 'cs': bool(op.get('cs', False)), 'cd': bool(op.get('cd', False)), 'rd': bool(op.get('rd', False)),
                 'res': 0}
            try:
                with warnings.catch_warnings():
                    warnings.simplefilter('ignore')
                    if op['op'] == 'regc':
                        P.register_pretty(self.cls[op['c']])(PRINTERS[op['p']])
                    elif op['op'] == 'regn':
                        P.register_pretty(self.key(op['c']))(PRINTERS[op['p']])
                    elif op['op'] == 'regp':
                        P.register_pretty(predicate=self.preds[op['q']])(PRINTERS[op['p']])
                    elif op['op'] == 'print':
                        # the instance reaches its printer bare, inside containers and through the comment wrappers:
                        # WHICH printer is used must not depend on that
                        inst = self.cls[op['c']]()
                        form = FORMS[(len(events) + len(ops)) % len(FORMS)]
                        out = P.pformat(form[1](inst))
                        marks = re.findall(r'P1|P2|REPR', out)
                        e['res'] = {'P1': 1, 'P2': 2, 'REPR': 0}[marks[0]] if len(marks) == 1 else -1
                        if e['res'] == -1:
                            e['raw'] = out[:80]
                        e['form'] = form[0]
                    elif op['op'] == 'isreg':
                        try:
                            r = P.is_registered(self.cls[op['c']], check_superclasses=e['cs'],
                                                check_deferred=e['cd'], register_deferred=e['rd'])
                            e['res'] = 'T' if r is True else 'F' if r is False else 'X'
                        except ValueError:
                            e['res'] = 'E'
            except Exception as ex:  # noqa
                e['res'] = 'X' if op['op'] == 'isreg' else -1
                e['raw'] = repr(ex)[:120]
            e['proj'] = self.projection()
            events.append(e)
        return events


FORMS = [('bare', lambda x: x), ('in a list', lambda x: [x]), ('comment()', lambda x: P.comment(x, 'c')),
         ('trailing_comment()', lambda x: P.trailing_comment(x, 't')), ('dict value', lambda x: {'k': x}),
         ('trailing_comment() in a list', lambda x: [P.trailing_comment(x, 't')]), ('bare', lambda x: x)]


def execute(histories):
    traces = []
    for i, ops in enumerate(histories):
        w = World()
        try:
            ev = w.run(ops)
        finally:
            w.cleanup()
        traces.append({'id': i + 1, 'events': ev})
    return traces


def show(ops):
    out = []
    for o in ops:
        if o['op'] in ('regc', 'regn'):
            out.append('%s(%s,p%d)' % (o['op'], o['c'], o['p']))
        elif o['op'] == 'regp':
            out.append('regp(%s,p%d)' % (o['q'], o['p']))
        elif o['op'] == 'print':
            out.append('print(%s%s)' % (o['c'], ' ' + o['form'] if o.get('form', 'bare') != 'bare' else '')
                       + ('->%s' % o['res'] if 'res' in o else ''))
        else:
            out.append('isreg(%s,cs=%d,cd=%d,rd=%d)' % (o['c'], o['cs'], o['cd'], o['rd'])
                       + ('->%s' % o['res'] if 'res' in o else ''))
    return '; '.join(out)


def random_history(rng, n):
    ops = []
    for _ in range(n):
        r = rng.random()
        c = rng.choice(CLASSES)
        if r < 0.2:
            ops.append({'op': 'regc', 'c': c, 'p': rng.choice([1, 2])})
        elif r < 0.45:
            ops.append({'op': 'regn', 'c': c, 'p': rng.choice([1, 2])})
        elif r < 0.5 and sum(1 for o in ops if o['op'] == 'regp') < 2:
            ops.append({'op': 'regp', 'q': rng.choice(['q1', 'q2']), 'p': rng.choice([1, 2])})
        elif r < 0.85:
            ops.append({'op': 'print', 'c': c})
        else:
            cs, cd, rd = rng.choice(FLAGS)
            ops.append({'op': 'isreg', 'c': c, 'cs': cs, 'cd': cd, 'rd': rd})
    return ops


def tlc_histories(chk, hist_len, simulate=None, lattice='full', np_=2, name='emit'):
    wd = os.path.join(chk.workdir, name)
    cfg = MC_CFG % dict(NP=np_, MAXP=2, EMIT='TRUE', HL=hist_len, LAT=lattice,
                        EXTRA='INVARIANT EmitHist')
    r = common.run_tlc('RegistryMC', cfg, wd, workers=1, heap='4g', simulate=simulate,
                       extra=['-seed', str(chk.seed), '-depth', str(hist_len + 1)] if simulate else [])
    if not (r.ok or simulate):
        raise common.MachineryError('RegistryMC emission failed:\n' + '\n'.join(r.out.splitlines()[-30:]))
    if r.invariant_violated:
        raise common.MachineryError('RegistryMC invariant violated during emission:\n' + '\n'.join(r.out.splitlines()[-40:]))
    hs = []
    for line in r.lines('H'):
        v = common.parse_tla_value(line)
        hs.append(json.loads(v[1]))
    return hs, r


def model_check(chk):
    """All reachable states of the (abstract, concrete) pair on two 3-class sub-lattices."""
    for lat in (['chain', 'multi', 'diamond'] if chk.tier == 'thorough' else ['multi']):
        wd = os.path.join(chk.workdir, 'mc-' + lat)
        # (the 4-class diamond with two predicate registrations does not finish: one there)
        cfg = MC_CFG % dict(NP=2, MAXP=1 if (chk.tier == 'quick' or lat == 'diamond') else 2, EMIT='FALSE', HL=0, LAT=lat,
                            EXTRA=INVS)
        r = common.run_tlc('RegistryMC', cfg, wd, workers=common.NCPU, heap='6g',
                           extra=['-coverage', '1'] if chk.tier == 'thorough' else [])
        chk.add_tlc(r)
        if r.invariant_violated:
            tail = '\n'.join(r.out.splitlines()[-40:])
            chk.violation('C15.model', 'RegistryMC: the concrete transcription of the registry violates the '
                          'abstract dispatch rule in a reachable state (lattice %s)\n%s' % (lat, tail), {'tlc': tail})
        elif not r.ok:
            raise common.MachineryError('RegistryMC failed:\n' + '\n'.join(r.out.splitlines()[-30:]))
        chk.stage('tlc.model-check RegistryMC', lattice=lat, states=r.distinct, transitions=r.generated,
                  wall=round(r.wall, 1), exhaustive=True)


def validate(chk, traces, name):
    v, st = common.tlc_batch('RegistryTrace', TRACE_CFG, traces, os.path.join(chk.workdir, name),
                             tags=('DONE',), min_per_shard=300)
    chk.add_model(st)
    res = {}
    for tid, lines in v['DONE'].items():
        bad = lines[0][2][1]
        drift = lines[0][3][1]
        res[tid] = (bad, drift)
    return res, st


def canary_traces(traces, rng, n=30):
    out = []
    pool = [t for t in traces if any(e['op'] == 'print' for e in t['events'])]
    for t in rng.sample(pool, min(n, len(pool))):
        k = json.loads(json.dumps(t))
        idx = rng.choice([i for i, e in enumerate(k['events']) if e['op'] == 'print'])
        k['events'][idx]['res'] = 9   # a printer that was never registered
        k['canary'] = True
        out.append(k)
    return out


def check_c15(chk, args):
    q = chk.tier == 'quick'
    rng = chk.rng
    model_check(chk)
    # spec -> code: histories generated by TLC
    hs, r = tlc_histories(chk, 2, name='emit2')
    chk.stage('tlc.emit exhaustive', hist_len=2, histories=len(hs), states=r.distinct)
    sims, r2 = tlc_histories(chk, 12, simulate='num=%d' % (60 if q else 1500), name='sim')
    chk.stage('tlc.emit simulate', hist_len=12, histories=len(sims))
    # every history of length 3 on the diamond A; B(A); E(A); F(B, E): MRO order vs. a depth-first walk of the bases
    hd, rd = tlc_histories(chk, 3, lattice='diamond', np_=2, name='emit3d')
    chk.stage('tlc.emit exhaustive', hist_len=3, lattice='diamond', histories=len(hd), states=rd.distinct)
    if q:
        # quick tier: ALL "register, register, print" histories, a sample of the others
        core = [h for h in hd if h[-1]['op'] == 'print' and all(o['op'] in ('regc', 'regn', 'regp') for o in h[:-1])]
        rest = [h for h in hd if any(o['op'] == 'print' for o in h) and h not in core[:0]]
        hd = core + rng.sample(rest, min(3000, len(rest)))
    elif len(hd) > 60000:
        # thorough tier: all register-register-print histories, 60 000 of the others (executing a history costs ~10 ms)
        core = [h for h in hd if h[-1]['op'] == 'print' and all(o['op'] in ('regc', 'regn', 'regp') for o in h[:-1])]
        hd = core + rng.sample(hd, 60000)
    hs += hd
    if not q:
        h3, r3 = tlc_histories(chk, 3, lattice='multi', name='emit3')
        chk.stage('tlc.emit exhaustive', hist_len=3, lattice='multi', histories=len(h3), states=r3.distinct)
        hs += h3
    # two overlapping predicates, then two prints: the first-registered predicate that accepts a value wins whatever
    # was printed before (q1 accepts A and its descendants, q2 accepts M and D; both accept D)
    for qa, qb in (('q1', 'q2'), ('q2', 'q1')):
        for pa, pb in ((1, 2), (2, 1)):
            for x in CLASSES:
                for y in CLASSES:
                    hs.append([{'op': 'regp', 'q': qa, 'p': pa}, {'op': 'regp', 'q': qb, 'p': pb},
                               {'op': 'print', 'c': x}, {'op': 'print', 'c': y}])
                    hs.append([{'op': 'regp', 'q': qa, 'p': pa}, {'op': 'regp', 'q': qb, 'p': pb}, {'op': 'print', 'c': x},
                               {'op': 'isreg', 'c': y, 'cs': 1, 'cd': 1, 'rd': 1}, {'op': 'print', 'c': y}, {'op': 'print', 'c': x}])
    rand = [random_history(rng, rng.randint(4, 14)) for _ in range(1500 if q else 30000)]
    histories = hs + sims + rand
    traces = execute(histories)
    can = canary_traces(traces, rng)
    for i, k in enumerate(can):
        k['id'] = len(traces) + 1 + i
    res, st = validate(chk, traces + can, 'validate')
    chk.stage('tlc.validate', traces=len(traces), canaries=len(can), states=st['distinct'], wall=round(st['wall'], 1))
    chk.cov['canaries_total'] = len(can)
    for k in can:
        bad, _ = res.get(k['id'], ([], []))
        if not bad:
            chk.machinery_error('canary trace accepted by RegistryTrace')
        else:
            chk.cov['canaries_rejected'] += 1
    nviol = ndrift = 0
    for t in traces:
        if t['id'] not in res:
            chk.machinery_error('no verdict for trace %d' % t['id'])
            continue
        bad, drift = res[t['id']]
        ops = t['events']
        if bad:
            nviol += 1
            pos, clause = sorted(bad)[0]
            chk.violation(clause, 'history rejected at step %d: %s' % (pos, show(ops[:pos])),
                          {'events': ops, 'bad': sorted(bad)})
        if drift:
            ndrift += 1
            chk.drifted('Registry.tla predicts a different result/projection at step %d of: %s' % (
                sorted(drift)[0], show(ops[:sorted(drift)[0]])))
        if any(e['op'] == 'regn' for e in ops) and any(e['op'] == 'print' for e in ops):
            chk.nontrivial(show([{k: v for k, v in e.items() if k != 'res'} for e in ops]))
    chk.cov['evaluations'] = len(traces)
    chk.cov['traces_validated_against_impl'] = len(traces)
    chk.cov['rule'] = ('operation sequences over {register by class, by name, predicate, print, is_registered x 8 flag '
                       'combinations} on freshly minted classes A; B(A); C(B); M; D(B,M); E(A); F(B,E) (a diamond): all histories of length 2 '
                       'emitted by TLC, TLC -simulate walks of length 12, seeded random ones of length 4-14; '
                       'non-trivial = contains a by-name registration and a print; distinct by operation sequence')
    for t in traces[::max(1, len(traces) // 5)][:5]:
        chk.sample(show(t['events']))
    chk.assumptions += ['printer identity is observed through the text each printer returns (P1/P2/REPR)',
                        'the singledispatch registry is cleaned between histories through gc.get_referents']
    chk.stage('verdict', rejected=nviol, drift=ndrift)
