"""Corpus for C19 (history independence). Importable in a fresh interpreter:
    python -c 'import corpus19; corpus19.main(<index>)'   prints the JSON baseline of one value printed FIRST."""
import ast
import collections
import collections.abc
import dataclasses
import datetime
import enum
import functools
import json
import os
import pathlib
import re
import sys
import time
import types
import uuid
import warnings

sys.path.insert(0, os.path.dirname(os.path.abspath(__file__)))
import importlib
import prettyprinter as P
PP = importlib.import_module('prettyprinter.prettyprinter')

with warnings.catch_warnings():
    warnings.simplefilter('ignore')
    P.install_extras(['dataclasses', 'attrs'], warn_on_error=False)

import attr


class Color(enum.Enum):
    RED = 1
    GREEN = 2


class Level(enum.IntEnum):
    LOW = 1


Point = collections.namedtuple('Point', 'x y')


@dataclasses.dataclass
class DC:
    a: int
    b: list = dataclasses.field(default_factory=list)
    c: str = 'dflt'


@attr.s
class AT:
    x = attr.ib()
    y = attr.ib(default=3)


class MyList(list):
    pass


class MyDict(dict):
    pass


class MyUUID(uuid.UUID):
    pass


class MyPath(pathlib.PurePosixPath):
    pass


class Odd:
    def __repr__(self):
        return '<odd>'


class Plain:
    def __repr__(self):
        return 'Plain()'


class Account:
    def __init__(self, owner, balance):
        self.owner, self.balance = owner, balance


class SavingsAccount(Account):
    pass


class Ledger:
    def __init__(self, *entries):
        self.entries = entries


class SubLedger(Ledger):
    pass


# a class registered directly and then, later, by name (an application's own printer followed by a plug-in's):
# which printer a value gets must not depend on whether a SUBCLASS instance was printed before it
@P.register_pretty(Account)
def _account_positional(v, ctx):
    return P.pretty_call(ctx, type(v), v.owner, v.balance)


@P.register_pretty(__name__ + '.Account')
def _account_keywords(v, ctx):
    return P.pretty_call(ctx, type(v), owner=v.owner, balance=v.balance)


# registered by name only, with a subclass that has no registration of its own
@P.register_pretty(__name__ + '.Ledger')
def _ledger(v, ctx):
    return P.pretty_call(ctx, type(v), *v.entries)


class MyMapping(collections.abc.Mapping):
    def __init__(self, d):
        self._d = dict(d)

    def __getitem__(self, k):
        return self._d[k]

    def __iter__(self):
        return iter(self._d)

    def __len__(self):
        return len(self._d)

    def __repr__(self):
        return 'MyMapping(%r)' % (self._d,)


class Shape:
    def __init__(self, name, tag=None):
        self.name = name
        if tag is not None:
            self.tag = tag


class Label:
    def __init__(self, tag):
        self.tag = tag


# two printers registered through overlapping PREDICATES: the first registered one that accepts a value wins,
# whatever was printed before (a value only the second predicate accepts must not change that)
@P.register_pretty(predicate=lambda v: isinstance(v, Shape))
def _pretty_shape(v, ctx):
    return P.pretty_call(ctx, Shape, v.name)


@P.register_pretty(predicate=lambda v: type(v) in (Shape, Label) and hasattr(v, 'tag'))
def _pretty_tagged(v, ctx):
    return P.pretty_call(ctx, 'tagged', type(v).__name__, v.tag)


class WithSettings:
    """a corpus entry printed with explicit settings: print_one(WithSettings(v, width=..)) = pformat(v, width=..)"""

    def __init__(self, value, **kw):
        self.value, self.kw = value, kw


def _rec():
    r = [1]
    r.append(r)
    return r


FACTORIES = [
    ('uuid', lambda: uuid.UUID(int=5)),
    ('uuid-subclass', lambda: MyUUID(int=6)),
    ('enum', lambda: Color.RED),
    ('intenum-in-list', lambda: [Level.LOW, Color.GREEN]),
    ('mappingproxy', lambda: types.MappingProxyType({'a': 1})),
    ('partial', lambda: functools.partial(int, '1', base=2)),
    ('partialmethod', lambda: functools.partialmethod(int, '1')),
    ('purepath', lambda: pathlib.PurePosixPath('a/b/c')),
    ('path-subclass', lambda: MyPath('x/y')),
    ('struct_time', lambda: time.gmtime(86400)),
    # a struct sequence whose repr cannot be parsed back (field-name resolution fails for THIS value)
    ('struct_time-odd-member', lambda: time.struct_time((1, 2, 3, 4, 5, 6, 7, 8, Odd()))),
    ('struct_time-2', lambda: time.gmtime(0)),
    ('version_info', lambda: sys.version_info),
    ('namedtuple', lambda: Point(1, [2, 3])),
    ('short-str', lambda: 'short'),
    ('long-str', lambda: 'word ' * 30),
    ('long-bytes-in-dict', lambda: {'k': b'bytes and more bytes ' * 6}),
    ('commented', lambda: P.comment([1, 2], 'a comment')),
    ('commented-dict-value', lambda: {'k': P.comment('v' * 50, 'long value'), 'j': P.trailing_comment([1], 't')}),
    ('dataclass', lambda: DC(1, [1, 2])),
    ('attrs', lambda: AT([1], 4)),
    ('nested-lazy', lambda: [uuid.UUID(int=7), {Color.GREEN: pathlib.PurePosixPath('p')}]),
    ('deque', lambda: collections.deque([1, 2, 3], maxlen=5)),
    ('ordereddict', lambda: collections.OrderedDict([('b', 1), ('a', 2)])),
    ('defaultdict', lambda: collections.defaultdict(list, {'a': [1]})),
    ('counter', lambda: collections.Counter('abracadabra')),
    ('chainmap', lambda: collections.ChainMap({'a': 1}, {'b': 2})),
    ('namespace', lambda: types.SimpleNamespace(b=1, a=[2])),
    ('datetime', lambda: [datetime.datetime(2020, 1, 2, 3, 4), datetime.timedelta(days=400, seconds=5),
                          datetime.date(2020, 1, 1), datetime.time(1, 2)]),
    ('exception', lambda: ValueError('bad', 3)),
    ('sets', lambda: [frozenset(['b', 'a']), {3, 1, 2}, set()]),
    ('unsorted-dict', lambda: {'z': 1, 'a': 2, 'm': {'y': 1, 'b': 2}, 'k': 0}),
    ('floats', lambda: [float('inf'), -0.0, float('nan'), 1e300]),
    # values that compare (and hash) equal but must print differently: a cache keyed by == would mix them up
    ('zero-float', lambda: 0.0),
    ('neg-zero-float', lambda: -0.0),
    ('zero-int', lambda: 0),
    ('false', lambda: False),
    ('one-int-in-list', lambda: [1, 2]),
    ('one-float-in-list', lambda: [1.0, 2.0]),
    ('true-in-list', lambda: [True, 2]),
    ('equal-keys-dict', lambda: {1: 'int key', 'k': [0.0, -0.0, 0, False]}),
    ('equal-keys-dict-float', lambda: {1.0: 'float key', 'k': [-0.0, 0.0, False, 0]}),
    ('str-vs-bytes', lambda: ['ab', b'ab', ('ab',), (b'ab',)]),
    ('recursive', _rec),
    ('list-subclass', lambda: MyList([1, 2])),
    ('dict-subclass', lambda: MyDict(a=1)),
    ('unregistered', lambda: [Plain(), Plain]),
    ('function', lambda: [len, os.path.join, dict.get]),
    ('wide-list', lambda: list(range(60))),
    # containers whose members are mapping / sequence LOOK-ALIKES (a printer that "normalises" them in place
    # would change the type or identity of something reachable from the input)
    ('chainmap-userdict-layer', lambda: collections.ChainMap(collections.UserDict(a=1), {'b': 2})),
    ('chainmap-custom-mapping-layer', lambda: collections.ChainMap(MyMapping({'x': [1, 2]}), {}, MyMapping({}))),
    ('chainmap-nested-proxy', lambda: {'cfg': collections.ChainMap(collections.UserDict(k=[1, 2]), types.MappingProxyType({'z': 0}))}),
    ('user-collections', lambda: [collections.UserList([1, 2]), collections.UserString('abc'), collections.UserDict(a=[1])]),
    ('defaultdict-nested', lambda: collections.defaultdict(list, {'a': [collections.defaultdict(int), collections.defaultdict(dict)]})),
    ('ordereddict-of-mappings', lambda: collections.OrderedDict([('m', MyMapping({'k': 1})), ('d', {'z': 1, 'a': 2})])),
    ('deque-of-deques', lambda: collections.deque([collections.deque([3, 1, 2], maxlen=3), collections.deque()], maxlen=2)),
    ('namespace-of-containers', lambda: types.SimpleNamespace(z=[3, 1], a={'b': (1, [2])})),
    # the same call with non-default settings: key sorting with keys that cannot be ordered among themselves
    ('sorted-mixed-keys', lambda: WithSettings({"s": [], ('t', False): 1, 3: 1, None: 2, b'x': 3, 2.5: 0}, sort_dict_keys=True, width=200)),
    ('sorted-mixed-keys-nested', lambda: WithSettings([{1: 'a', 'one': 'b', (1,): 'c'}, {'z': {None: 1, 'n': 2, 0: 3}}], sort_dict_keys=True)),
    # same-TYPE keys that cannot all be ordered among themselves, and keys of that type that can (out of order)
    ('sorted-tuple-keys-unorderable', lambda: WithSettings({(1, 'a'): 1, (1, 2): 2, (0, 'z'): 3, (0, None): 4}, sort_dict_keys=True)),
    ('sorted-tuple-keys-orderable', lambda: WithSettings({(2, 1): 'a', (1, 2): 'b', (0, 9): 'c', (1, 0): 'd', (4, 3): 'e', (3, 3): 'f'},
                                                         sort_dict_keys=True)),
    ('sorted-frozenset-keys', lambda: WithSettings({frozenset([1]): 1, frozenset([2, 3]): 2, frozenset(): 3}, sort_dict_keys=True)),
    ('sorted-str-keys-nested-in-tuple-keyed', lambda: WithSettings({(2, 'b'): {'z': 1, 'a': 2}, (1, 'c'): {'y': 0, 'b': 1}}, sort_dict_keys=True)),
    ('sorted-comparable-keys', lambda: WithSettings({'b': 1, 'a': {'d': 1, 'c': 2}, 'c': 0}, sort_dict_keys=True)),
    # long sequences of short elements under a page (much) wider than the default, and the same values under the default page
    ('wide-page-long-tuple', lambda: WithSettings(tuple(range(5)) * 11, width=200, ribbon_width=200)),
    ('wide-page-long-list', lambda: WithSettings([[0] * 60, {'k': list('abcdefgh') * 8}], width=400, ribbon_width=400)),
    ('wide-page-narrow-ribbon', lambda: WithSettings(list(range(70)), width=1000, ribbon_width=160)),
    ('default-page-long-tuple', lambda: tuple(range(5)) * 11),
    # values of SHORT-LIVED classes (created for the print, garbage afterwards - see EPHEMERAL): anything the library
    # remembers about a class must not outlive it (a later class may get its address)
    ('ephemeral-tuple-subclasses', lambda: [type('Tmp%d' % i, (tuple,), {})((i, i + 1)) for i in range(12)]),
    ('ephemeral-namedtuples', lambda: [collections.namedtuple('Rec%d' % i, 'a b')(i, [i]) for i in range(12)]),
    ('ephemeral-list-and-dict-subclasses', lambda: [type('L%d' % i, (list, dict)[i % 2:][:1], {})() for i in range(12)]),
    ('narrow-truncated', lambda: WithSettings({'k': list(range(8)), 'j': ('x' * 30, 'y')}, width=20, max_seq_len=3, depth=2)),
    # comment texts with whitespace-only lines (an odd and an even number of them), and comments that must be wrapped
    ('trailing-comment-blank-line', lambda: P.trailing_comment([1, 2], '\n    text\n    ')),
    ('trailing-comment-blank-lines', lambda: P.trailing_comment({'a': 1}, ' \n\t\nwords here\n \n  ')),
    ('dict-key-comment-blank', lambda: {P.comment('k', ' \n x'): 1, 'j': P.comment(2, '\n')}),
    # several wrappers of one kind stacked on one value (the innermost text is the one shown - every time)
    ('comment-on-comment', lambda: [P.comment(P.comment(1, 'inner'), 'outer'), 2]),
    ('comment-on-comment-top', lambda: P.comment(P.comment({'k': 'v'}, 'inner'), 'outer')),
    ('trailing-on-trailing', lambda: P.trailing_comment(P.trailing_comment([1, 2], 'inner'), 'outer')),
    ('three-comments-in-call', lambda: collections.ChainMap(P.comment(P.comment(P.comment({'a': 1}, 'one'), 'two'), 'three'))),
    ('comment-wrapped', lambda: WithSettings([P.comment(1, 'the first element of this list is one'), 2], width=30)),
    ('comment-wrapped-dict', lambda: WithSettings({'k': P.comment([1, 2], 'a comment of several words that has to wrap here')}, width=24)),
    ('shape-plain', lambda: Shape('circle')),
    ('label-only-second-predicate', lambda: Label('t1')),
    ('shape-tagged-both-predicates', lambda: Shape('square', tag='t2')),
    ('shapes-nested', lambda: [Label('t3'), Shape('tri', tag='t4'), {'k': Shape('dot')}]),
    ('account', lambda: Account('ann', 10)),
    ('savings-account', lambda: SavingsAccount('di', 2)),
    ('accounts-nested', lambda: {'accounts': [Account('cy', 1), SavingsAccount('di', 2)]}),
    ('savings-then-account', lambda: [SavingsAccount('ed', 3), Account('flo', 4)]),
    ('ledger', lambda: Ledger(1, Account('gus', 5))),
    ('sub-ledger', lambda: SubLedger(2, [Ledger(3)])),
]

# entries whose key order depends on object identity (same-type keys that cannot be ordered)
IDENTITY_ORDERED = {'sorted-tuple-keys-unorderable'}

_ID = re.compile(r'id=\d+')
PRISTINE_DEFERRED = dict(PP._DEFERRED_DISPATCH_BY_NAME)


# entries whose value is built anew for every print and dropped (and collected) right after it
EPHEMERAL = ('ephemeral-tuple-subclasses', 'ephemeral-namedtuples', 'ephemeral-list-and-dict-subclasses')


def norm(text):
    return _ID.sub('id=N', text)


def projection():
    out = sorted(k for k in PRISTINE_DEFERRED if k not in PP._DEFERRED_DISPATCH_BY_NAME)
    out += sorted('structseq:' + c.__qualname__ for c in list(getattr(PP, '_cnamedtuple_fieldnames_by_class', {}).keys()))
    return out


def print_one(v, **kw):
    if isinstance(v, WithSettings):
        v, kw = v.value, dict(v.kw, **kw)
    with warnings.catch_warnings(record=True) as w:
        warnings.simplefilter('always')
        try:
            text = norm(P.pformat(v, **kw))
        except Exception as e:  # noqa
            text = 'RAISED ' + repr(e)
    warned = sorted({str(x.message)[:60] for x in w})
    return text + ''.join('\n#warning: ' + m for m in warned)


def main(i):
    name, f = FACTORIES[i]
    v = f()
    text = print_one(v)
    print(json.dumps({'name': name, 'text': text, 'foot': projection()}))
