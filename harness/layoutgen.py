"""Document universes for the layout properties (C04, C05, C06).

Abstract document terms (python tuples) are
  ('t', s) ('line',) ('soft',) ('hl',) ('nil',)
  ('grp', d) ('nest', i, d) ('ab', d) ('align', d) ('hang', i, d) ('ann', a, d)
  ('cat', d1, ..., dn) ('fc', when_broken, when_flat) ('fill', d1, ..., dn)
They are turned into
  * real documents, ONLY through the public combinators of prettyprinter.doc,
    a plain str being used wherever a text is (build),
  * node tables for the abstract specification LayoutSpec (table),
  * nested JSON terms for the concrete specification LayoutImpl (termjson).
"""
import random

from prettyprinter import doc as D
from prettyprinter.doctypes import Contextual
from prettyprinter.layout import layout_smart, layout_fast
from prettyprinter.sdoctypes import SLine, SAnnotationPush, SAnnotationPop
from prettyprinter.render import default_render_to_str

TEXTS_FULL = ['a', 'bb', 'c ', '']
TEXTS_SMALL = ['a', 'bb']


class TextIds:
    def __init__(self):
        self.ids = {}

    def __call__(self, s):
        return self.ids.setdefault(s, len(self.ids) + 1)


TID = TextIds()


def leaves(texts, nil=False):
    r = [('t', s) for s in texts] + [('line',), ('soft',), ('hl',), ('cat',)]
    if nil:
        r.append(('nil',))
    return r


def enum_terms(n, classic, texts, memo=None, hang=True, ann=True):
    """All terms with exactly n nodes. classic: text, concat, nest, group, line,
    softline, hardline, always_break, align only."""
    if memo is None:
        memo = {}
    key = (n, classic)
    if key in memo:
        return memo[key]
    if n == 1:
        r = leaves(texts)
    else:
        r = []
        for d in enum_terms(n - 1, classic, texts, memo, hang, ann):
            # (a negative offset dedents: offsets are summed, never clamped)
            r += [('grp', d), ('nest', 2, d), ('nest', -3, d), ('ab', d), ('align', d)]
            if not classic:
                if ann:
                    r.append(('ann', 7, d))
                    r.append(('ann', 0, d))      # a falsy annotation value is an annotation, too
                if hang:
                    r.append(('hang', 2, d))
            # a concat with a single member (normalisation unwraps it; a forced break must survive)
            r.append(('cat', d))
            if not classic:
                r.append(('fill', d))
        # n-ary concat, 2..4 children
        for arity in (2, 3, 4):
            for parts in compositions(n - 1, arity):
                for kids in product_terms(parts, classic, texts, memo, hang, ann):
                    r.append(('cat',) + kids)
        if not classic:
            for parts in compositions(n - 1, 2):
                for kids in product_terms(parts, classic, texts, memo, hang, ann):
                    r.append(('fc',) + kids)
            # fill: content, separator, content (, separator, content)
            for arity in (3, 5):
                for parts in compositions(n - 1, arity):
                    if any(parts[i] != 1 for i in range(1, arity, 2)):
                        continue
                    for kids in product_terms(parts, classic, texts, memo, hang, ann):
                        if all(kids[i] in (('line',), ('soft',)) for i in range(1, arity, 2)):
                            r.append(('fill',) + kids)
    memo[key] = r
    return r


def structured_terms(classic):
    """Two-level family: triples / pairs of small 'pieces' under a group or a concat. Reaches
    documents of up to ~13 nodes with the shapes that matter (a hardline or forced break before a
    nested group, a nested group after text, aligned continuation lines ...)."""
    B = ('t', 'bb')
    L = ('line',)
    pieces = [('t', 'a'), B, L, ('soft',), ('hl',), ('grp', L), ('grp', ('cat', B, L)), ('grp', ('cat', B, L, B)),
              ('nest', 2, L), ('nest', 2, ('grp', ('cat', B, L, B))), ('ab', ('t', 'a')), ('align', ('cat', B, L, B))]
    if not classic:
        pieces += [('fill', B, L, B), ('ann', 7, B), ('fc', ('t', 'a'), B)]
    out = []
    for p in pieces:
        for q in pieces:
            out.append(('cat', p, q))
            out.append(('grp', ('cat', p, q)))
            for r in pieces:
                out.append(('grp', ('cat', p, q, r)))
                out.append(('nest', 2, ('cat', p, q, r)))
    # long tails: a group followed on its line by k siblings that take no (or little) room when flat, then text -
    # "the whole output line on which the group's text sits", however many stack entries the rest of the line spans
    groups = [('grp', ('cat', ('t', 'a'), ('soft',), B)), ('grp', ('cat', B, L, B))]
    zeros = [('grp', ('soft',)), ('nest', 2, ('grp', ('soft',))), ('grp', ('nest', 2, ('soft',))), ('soft',), ('cat',), ('t', ''),
             ('grp', ('cat', ('soft',), ('soft',))), ('align', ('grp', ('soft',)))]
    if not classic:
        zeros += [('ann', 7, ('grp', ('soft',))), ('fill', ('soft',), ('soft',))]
    tails = [('t', 'a'), B, ('cat', B, L, B)]
    for g in groups:
        for z in zeros:
            for k in (1, 2, 3, 4, 6):
                for t in tails:
                    body = ('cat', g) + (z,) * k + (t,)
                    out.append(body)
                    out.append(('grp', ('cat', ('t', 'f('), ('align', body), ('t', ')'))))
                    out.append(('nest', 2, ('cat', ('hl',), body)))
    # a group, a line break into a deeper level, then something on that FOLLOWING line: plain text, a forced-break
    # document that normalisation hoists, one that it cannot hoist (below align / annotate / fill)
    inner = ('cat', ('t', 'c'), L, ('t', 'd'))
    following = [inner, ('ab', inner), ('align', ('ab', inner)), ('grp', inner), ('nest', 1, ('ab', inner))]
    if not classic:
        following += [('ann', 7, ('ab', inner)), ('fill', ('ab', inner)), ('fc', ('ab', inner), ('ab', inner))]
    for g in groups:
        for brk in (('nest', 2, L), ('nest', 2, ('hl',)), ('hl',)):
            for f in following:
                out.append(('cat', g, brk, ('nest', 2, f)))
                out.append(('nest', 1, ('cat', g, brk, ('nest', 2, f), ('hl',), ('t', 'a'))))
    return out


def compositions(total, k):
    if k == 1:
        if total >= 1:
            yield (total,)
        return
    for first in range(1, total - k + 2):
        for rest in compositions(total - first, k - 1):
            yield (first,) + rest


def product_terms(parts, classic, texts, memo, hang, ann):
    if not parts:
        yield ()
        return
    for a in enum_terms(parts[0], classic, texts, memo, hang, ann):
        for rest in product_terms(parts[1:], classic, texts, memo, hang, ann):
            yield (a,) + rest


def random_term(rng, size, classic, texts=TEXTS_FULL, depth=0):
    """A random term with roughly `size` nodes."""
    if size <= 1:
        return rng.choice(leaves(texts))
    kinds = ['grp', 'grp', 'nest', 'ab', 'align', 'cat', 'cat', 'cat']
    if not classic:
        kinds += ['ann', 'hang', 'fc', 'fill', 'fill']
    k = rng.choice(kinds)
    if k in ('grp', 'ab', 'align'):
        return (k, random_term(rng, size - 1, classic, texts, depth + 1))
    if k == 'nest':
        return ('nest', rng.choice([1, 2, 4, 2, -1, -3]), random_term(rng, size - 1, classic, texts, depth + 1))
    if k == 'hang':
        return ('hang', rng.choice([1, 2]), random_term(rng, size - 1, classic, texts, depth + 1))
    if k == 'ann':
        return ('ann', rng.choice([7, 8, 0, None, '']), random_term(rng, size - 1, classic, texts, depth + 1))
    if k == 'cat':
        arity = rng.randint(2, min(5, max(2, size - 1)))
        sizes = split_size(rng, size - 1, arity)
        return ('cat',) + tuple(random_term(rng, s, classic, texts, depth + 1) for s in sizes)
    if k == 'fc':
        sizes = split_size(rng, size - 1, 2)
        return ('fc',) + tuple(random_term(rng, s, classic, texts, depth + 1) for s in sizes)
    if k == 'fill':
        items = rng.randint(1, 4)
        if size - 1 < 2 * items - 1:
            items = 1
        sizes = split_size(rng, max(items, size - 1 - (items - 1)), items)
        out = []
        for i, s in enumerate(sizes):
            if i:
                out.append(rng.choice([('line',), ('soft',)]))
            out.append(random_term(rng, s, classic, texts, depth + 1))
        return ('fill',) + tuple(out)
    raise AssertionError(k)


def split_size(rng, total, k):
    total = max(total, k)
    cuts = sorted(rng.sample(range(1, total), k - 1)) if total > 1 and k > 1 else []
    pts = [0] + cuts + [total]
    return [pts[i + 1] - pts[i] for i in range(k)]


def is_classic(t):
    if t[0] in ('fc', 'fill', 'ann', 'hang', 'nil'):
        return False
    if t == ('cat',):
        return True
    return all(is_classic(x) for x in t[1:] if isinstance(x, tuple))


# ---------------------------------------------------------------------------

def build(t):
    """Real document through the public combinators only."""
    k = t[0]
    if k == 't':
        return t[1]
    if k == 'line':
        return D.LINE
    if k == 'soft':
        return D.SOFTLINE
    if k == 'hl':
        return D.HARDLINE
    if k == 'nil':
        return D.NIL
    if k == 'grp':
        return D.group(build(t[1]))
    if k == 'nest':
        return D.nest(t[1], build(t[2]))
    if k == 'ab':
        return D.always_break(build(t[1]))
    if k == 'align':
        return D.align(build(t[1]))
    if k == 'hang':
        return D.hang(t[1], build(t[2]))
    if k == 'ann':
        return D.annotate(t[1], build(t[2]))
    if k == 'cat':
        return D.concat([build(x) for x in t[1:]])
    if k == 'fc':
        return D.flat_choice(when_broken=build(t[1]), when_flat=build(t[2]))
    if k == 'fill':
        return D.fill([build(x) for x in t[1:]])
    raise ValueError(t)


def _nd(k, a=0, c=(), n=0, t=0):
    return {'k': k, 'a': a, 'c': list(c), 'n': n, 't': t}


def table(t):
    nodes = []

    def add(rec):
        nodes.append(rec)
        return len(nodes)

    def go(t):
        k = t[0]
        if k == 't':
            return add(_nd('t', n=len(t[1]), t=TID(t[1])))
        if k == 'hl':
            return add(_nd('hl'))
        if k == 'nil':
            return add(_nd('nil'))
        if k in ('line', 'soft'):
            h = add(_nd('hl'))
            f = add(_nd('t', n=1, t=TID(' '))) if k == 'line' else add(_nd('nil'))
            return add(_nd('fc', c=[h, f]))
        if k in ('grp', 'ab', 'align'):
            c = go(t[1])
            return add(_nd(k, c=[c]))
        if k == 'nest':
            c = go(t[2])
            return add(_nd('nest', a=t[1], c=[c]))
        if k == 'hang':
            c = go(t[2])
            n = add(_nd('nest', a=t[1], c=[c]))
            return add(_nd('align', c=[n]))
        if k == 'ann':
            c = go(t[2])
            return add(_nd('ann', a=ann_id(t[1]), c=[c]))
        if k in ('cat', 'fc', 'fill'):
            cs = [go(x) for x in t[1:]]
            return add(_nd(k, c=cs))
        raise ValueError(t)

    root = go(t)
    return nodes, root


def termjson(t):
    k = t[0]
    if k == 't':
        return ['t', len(t[1]), TID(t[1]), len(t[1].rstrip())]
    if k == 'hl':
        return ['hl']
    if k == 'nil':
        return ['nil']
    if k == 'line':
        return ['fc', ['hl'], ['t', 1, TID(' '), 0], 0]
    if k == 'soft':
        return ['fc', ['hl'], ['nil'], 0]
    if k in ('grp', 'ab', 'align'):
        return [k, termjson(t[1])]
    if k == 'nest':
        return ['nest', t[1], termjson(t[2])]
    if k == 'hang':
        return ['align', ['nest', t[1], termjson(t[2])]]
    if k == 'ann':
        return ['ann', ann_id(t[1]), termjson(t[2])]
    if k in ('cat', 'fill'):
        return [k, [termjson(x) for x in t[1:]]]
    if k == 'fc':
        return ['fc', termjson(t[1]), termjson(t[2]), 0]
    raise ValueError(t)


def obs_of(stream):
    out = []
    for s in stream:
        if isinstance(s, str):
            if s:
                out.append({'k': 't', 'n': len(s), 't': TID(s), 'a': 0, 'r': len(s.rstrip())})
        elif isinstance(s, SLine):
            out.append({'k': 'nl', 'n': s.indent, 't': 0, 'a': 0, 'r': 0})
        elif isinstance(s, SAnnotationPush):
            out.append({'k': 'push', 'n': 0, 't': 0, 'a': ann_id(s.value), 'r': 0})
        elif isinstance(s, SAnnotationPop):
            out.append({'k': 'pop', 'n': 0, 't': 0, 'a': ann_id(s.value), 'r': 0})
        else:
            raise ValueError('not an SDoc: %r' % (s,))
    return out


_ANN = {}


def ann_id(v):
    if v is None:
        return 998
    if v == '' and isinstance(v, str):
        return 997
    if isinstance(v, int) and not isinstance(v, bool) and v == 0:
        return 999
    if isinstance(v, int) and not isinstance(v, bool) and 0 < int(v) < 990:
        return int(v)
    key = id(v) if not isinstance(v, (str, int)) else v
    return _ANN.setdefault(key, 1000 + len(_ANN))


CONFIGS_QUICK = [(1, 1, 1), (2, 1, 4), (3, 1, 1), (4, 1, 2), (5, 3, 4), (6, 1, 1), (7, 1, 2), (12, 1, 4), (40, 1, 1)]
CONFIGS_THOROUGH = [(w, fn, fd) for w in (1, 2, 3, 4, 5, 6, 7, 8, 10, 12, 40)
                    for (fn, fd) in ((1, 1), (3, 4), (1, 2), (1, 4), (1, 8))]


def layout_case(cid, t, doc, W, fn, fd, smart, model=True, **flags):
    L = layout_smart if smart else layout_fast
    stream = list(L(doc, width=W, ribbon_frac=fn / fd))
    nodes, root = table(t)
    case = {
        'id': cid, 'W': W, 'fn': fn, 'fd': fd, 'smart': smart, 'nodes': nodes, 'root': root,
        'obs': obs_of(stream), 'ctxt': [],
        'model': bool(model), 'term': termjson(t) if model else [],
        'c05': False, 'c06': False, 'strict': True, 'diag': False, 'rnl': False,
    }
    case.update(flags)
    return case, stream
