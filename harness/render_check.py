"""C04.render: the default renderer only trims trailing blanks (spec/Render.tla)."""
import os

import common
import layoutgen as G
from prettyprinter.render import default_render_to_str
from prettyprinter.layout import layout_smart, layout_fast
from prettyprinter.sdoctypes import SLine, SAnnotationPush, SAnnotationPop

CFG = "INIT Init\nNEXT Next\nINVARIANT Report\nCHECK_DEADLOCK FALSE\n"


def codes(s):
    return [ord(ch) for ch in s]


def robs(stream):
    out = []
    for s in stream:
        if isinstance(s, str):
            out.append({'k': 't', 'n': len(s), 's': codes(s)})
        elif isinstance(s, SLine):
            out.append({'k': 'nl', 'n': s.indent, 's': []})
        elif isinstance(s, SAnnotationPush):
            out.append({'k': 'push', 'n': 0, 's': []})
        elif isinstance(s, SAnnotationPop):
            out.append({'k': 'pop', 'n': 0, 's': []})
    return out


def render_case(cid, stream):
    rendered = default_render_to_str(list(stream))
    return {'id': cid, 'obs': robs(stream), 'rendered': codes(rendered)}


def run(chk, u, limit=None):
    q = chk.tier == 'quick'
    limit = limit or (3000 if q else 40000)
    cases = []
    metas = {}
    step = max(1, len(u.cases) // limit)
    for c in u.cases[::step]:
        m = u.meta[c['id']]
        d = G.build(m['term'])
        L = layout_smart if m['smart'] else layout_fast
        stream = list(L(d, width=m['W'], ribbon_frac=m['ribbon_frac'][0] / m['ribbon_frac'][1]))
        rc = render_case(c['id'], stream)
        cases.append(rc)
        metas[c['id']] = m
    # canaries: a rendered text that lost a non-blank character / gained a character
    can = []
    cid = max(metas) + 1 if metas else 1
    for rc in cases:
        if len(can) >= 10:
            break
        r = rc['rendered']
        nb = [i for i, ch in enumerate(r) if ch not in (32, 10)]
        if nb:
            k = dict(rc)
            k['id'] = cid
            cid += 1
            k['rendered'] = r[:nb[-1]] + r[nb[-1] + 1:]
            can.append(k)
    v, st = common.tlc_batch('Render', CFG, cases + can, os.path.join(chk.workdir, 'render'),
                             tags=('ACCEPT', 'DRIFT', 'IMPLOK'), min_per_shard=500)
    chk.add_model(st)
    acc = v['ACCEPT']
    bad = 0
    for rc in cases:
        if rc['id'] not in acc:
            bad += 1
            m = metas[rc['id']]
            chk.violation('C04.render', 'rendered text differs from the stream by more than trailing blanks: '
                          'doc=%r width=%d rendered=%r' % (m['term'], m['W'], ''.join(map(chr, rc['rendered']))), m)
        if rc['id'] in v['DRIFT']:
            chk.drifted('Render.tla concrete renderer predicts different text for %r' % (metas[rc['id']]['term'],))
        if rc['id'] not in v['IMPLOK']:
            chk.machinery_error('Render.tla: concrete renderer violates the abstract clause on a real stream')
    for k in can:
        chk.cov['canaries_total'] += 1
        if k['id'] in acc:
            chk.machinery_error('render canary accepted')
        else:
            chk.cov['canaries_rejected'] += 1
    chk.stage('render', streams=len(cases), rejected=bad, canaries=len(can), states=st['distinct'])
    return cases
