"""Capture the documents the real printers build and the layout calls made on them.

No source hook: `prettyprinter.prettyprinter.layout_smart` is a module global looked
up at call time by python_to_sdocs, so it can be wrapped from outside. Contextual
documents are opaque functions; every evaluation (indent, column) -> result document
is logged and serialised with the case (kind "ctx" + table `ctxt`), except the
Contextual built by doc.align, which is recognised and modelled exactly.
"""
import contextlib

import common
import layoutgen as G
from prettyprinter import doctypes as DT
from prettyprinter import layout as LAYOUT

PP = common.pp_module('prettyprinter.prettyprinter')


class Table:
    def __init__(self):
        self.nodes = []
        self.ctxt = []
        self.ctx_nodes = {}   # id(Contextual) -> [node ids]
        self.keep = []        # keep objects alive so that id() stays unique

    def add(self, k, a=0, c=(), n=0, t=0):
        self.nodes.append({'k': k, 'a': a, 'c': list(c), 'n': n, 't': t})
        return len(self.nodes)

    def convert(self, d):
        if isinstance(d, str):
            return self.add('t', n=len(d), t=G.TID(d))
        if d is DT.NIL or isinstance(d, DT.Nil):
            return self.add('nil')
        if d is DT.HARDLINE or isinstance(d, DT.HardLine):
            return self.add('hl')
        if isinstance(d, DT.Concat):
            return self.add('cat', c=[self.convert(x) for x in d.docs])
        if isinstance(d, DT.Fill):
            return self.add('fill', c=[self.convert(x) for x in d.docs])
        if isinstance(d, DT.Nest):
            return self.add('nest', a=d.indent, c=[self.convert(d.doc)])
        if isinstance(d, DT.Group):
            return self.add('grp', c=[self.convert(d.doc)])
        if isinstance(d, DT.AlwaysBreak):
            return self.add('ab', c=[self.convert(d.doc)])
        if isinstance(d, DT.Annotated):
            return self.add('ann', a=G.ann_id(d.annotation), c=[self.convert(d.doc)])
        if isinstance(d, DT.FlatChoice):
            # raw branches (not the self-normalising properties)
            b = self.convert(d._when_broken)
            f = self.convert(d._when_flat)
            return self.add('fc', c=[b, f])
        if isinstance(d, DT.Contextual):
            return self.convert_contextual(d)
        raise ValueError('not a document: %r' % (d,))

    def convert_contextual(self, d):
        fn = d.fn
        inner = getattr(fn, '_verif_inner', None)
        if inner is None and getattr(fn, '__qualname__', '') == 'align.<locals>.evaluator' and fn.__closure__:
            # doc.align: Nest(column - indent, doc)
            cells = dict(zip(fn.__code__.co_freevars, fn.__closure__))
            if 'doc' in cells:
                return self.add('align', c=[self.convert(cells['doc'].cell_contents)])
        nid = self.add('ctx')
        self.keep.append(d)
        self.ctx_nodes.setdefault(id(d), []).append(nid)
        if inner is None:
            table = self
            seen = {}

            def logging_fn(indent, column, page_width, ribbon_width, _fn=fn, _d=d):
                res = _fn(indent=indent, column=column, page_width=page_width, ribbon_width=ribbon_width)
                key = (indent, column)
                if key not in seen:
                    seen[key] = True
                    root = table.convert(res)
                    for n in table.ctx_nodes[id(_d)]:
                        table.ctxt.append({'node': n, 'ind': indent, 'col': column, 'root': root})
                return res

            logging_fn._verif_inner = fn
            logging_fn._verif_seen = seen
            d.fn = logging_fn
        return nid


class Capture:
    def __init__(self):
        self.calls = []


@contextlib.contextmanager
def capturing():
    cap = Capture()
    orig = PP.layout_smart

    def wrapped(doc, width=79, ribbon_frac=0.9):
        table = Table()
        root = table.convert(doc)
        stream = list(orig(doc, width=width, ribbon_frac=ribbon_frac))
        # entries for aliases registered after an evaluation happened
        done = {(e['node'], e['ind'], e['col']) for e in table.ctxt}
        for objid, nids in table.ctx_nodes.items():
            have = [e for e in table.ctxt if e['node'] in nids]
            for e in have:
                for n in nids:
                    if (n, e['ind'], e['col']) not in done:
                        done.add((n, e['ind'], e['col']))
                        table.ctxt.append({'node': n, 'ind': e['ind'], 'col': e['col'], 'root': e['root']})
        cap.calls.append({'nodes': table.nodes, 'root': root, 'ctxt': table.ctxt, 'W': width,
                          'ribbon_frac': ribbon_frac, 'stream': stream})
        return iter(stream)

    PP.layout_smart = wrapped
    try:
        yield cap
    finally:
        PP.layout_smart = orig


def case_from_call(cid, call, **flags):
    W = call['W']
    R = max(0, min(W, round(call['ribbon_frac'] * W)))
    c = {'id': cid, 'W': W, 'fn': R, 'fd': W, 'smart': True, 'nodes': call['nodes'], 'root': call['root'],
         'obs': G.obs_of(call['stream']), 'ctxt': call['ctxt'], 'model': False, 'term': [],
         'c05': False, 'c06': False, 'strict': True, 'diag': False, 'rnl': False}
    c.update(flags)
    return c
