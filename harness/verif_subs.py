"""User subclasses of the built-in types for C08 (plain / __repr__ / __str__ / both)."""
import enum

BASES = {'list': list, 'tuple': tuple, 'set': set, 'frozenset': frozenset, 'dict': dict, 'str': str,
         'bytes': bytes, 'int': int, 'float': float}
ALL = {}   # class -> (qualified name, base kind)


def _mk(kind, variant):
    base = BASES[kind]
    name = '%s%s' % (kind.capitalize(), variant)
    ns = {'__module__': __name__}
    if variant in ('Repr', 'Both'):
        ns['__repr__'] = lambda self: '<custom repr>'
    if variant in ('Str', 'Both'):
        ns['__str__'] = lambda self: '<custom str>'
    cls = type(name, (base,), ns)
    globals()[name] = cls
    ALL[cls] = ('%s.%s' % (__name__, name), kind)
    return cls


for _k in BASES:
    for _v in ('Plain', 'Repr', 'Str', 'Both'):
        _mk(_k, _v)


class IE(enum.IntEnum):
    A = 1
    B = 7


ALL[IE] = ('%s.IE' % __name__, 'int')


def of_kind(kind):
    return [c for c, (q, k) in ALL.items() if k == kind]
