"""User subclasses of the built-in types for C08 (plain / __repr__ / __str__ / both)."""
import enum

BASES = {'list': list, 'tuple': tuple, 'set': set, 'frozenset': frozenset, 'dict': dict, 'str': str,
         'bytes': bytes, 'int': int, 'float': float}
ALL = {}   # class -> (qualified name, base kind)


def _mk(kind, variant):
    base = BASES[kind]
    name = '%s%s' % (kind.capitalize(), variant)
    ns = {'__module__': __name__}
    if variant in ('Repr', 'Both'):
        ns['__repr__'] = lambda self: '<custom repr>'
    if variant in ('Str', 'Both'):
        ns['__str__'] = lambda self: '<custom str>'
    cls = type(name, (base,), ns)
    globals()[name] = cls
    ALL[cls] = ('%s.%s' % (__name__, name), kind)
    return cls


for _k in BASES:
    for _v in ('Plain', 'Repr', 'Str', 'Both'):
        _mk(_k, _v)


class IE(enum.IntEnum):
    A = 1
    B = 7


ALL[IE] = ('%s.IE' % __name__, 'int')


# IntEnum-style classes of the other bases: Enum mix-ins whose members are instances of the base type
class EList(list, enum.Enum):
    A = [1]
    B = [1, 'a']


class ETuple(tuple, enum.Enum):
    A = (1,)
    B = (1, 'a')


class ESet(set, enum.Enum):
    A = {1}


class EDict(dict, enum.Enum):
    A = {'a': 1}
    B = {'a': 1, 'b': [1, 2]}


class EStr(str, enum.Enum):
    A = 'a'
    B = 'word ' * 12
    C = ''


class EBytes(bytes, enum.Enum):
    A = b'a'
    B = b'bytes and more bytes ' * 3


class EFloat(float, enum.Enum):
    A = 1.5
    B = -0.0


ENUM_MIXINS = {EList: 'list', ETuple: 'tuple', ESet: 'set', EDict: 'dict', EStr: 'str', EBytes: 'bytes', EFloat: 'float'}
for _c, _k in ENUM_MIXINS.items():
    ALL[_c] = ('%s.%s' % (__name__, _c.__name__), _k)


# members whose printed form relies on the BASE constructor converting its argument, which calling an Enum class
# (a lookup by value) does not do: no argument for an empty container, a list for a frozenset, 'inf' for a float
class EListEmpty(list, enum.Enum):
    E = []


class ETupleEmpty(tuple, enum.Enum):
    E = ()


class EDictEmpty(dict, enum.Enum):
    E = {}


class EFrozen(frozenset, enum.Enum):
    A = frozenset([1])


class EFloatInf(float, enum.Enum):
    I = float('inf')


CONVERTING_FORM_MEMBERS = [EListEmpty.E, ETupleEmpty.E, EDictEmpty.E, EFrozen.A, EFloatInf.I]


def of_kind(kind):
    return [c for c, (q, k) in ALL.items() if k == kind]
