import sys, threading, warnings, itertools
warnings.simplefilter('ignore')
import prettyprinter
from prettyprinter import pformat, register_pretty
import importlib; pp = importlib.import_module("prettyprinter.prettyprinter")
PKG = pp.__file__

class Sched:
    """Deterministic scheduler: threads stop before each line in prettyprinter.py::is_registered/decorator; run by explicit schedule."""
    def __init__(self, n):
        self.n = n
        self.go = [threading.Semaphore(0) for _ in range(n)]
        self.back = threading.Semaphore(0)
        self.done = [False]*n
        self.res = [None]*n
    def tracer(self, tid):
        def local(frame, event, arg):
            if event == 'line':
                self.back.release()      # report "I'm at a boundary"
                self.go[tid].acquire()   # wait for permission
            return local
        def glob(frame, event, arg):
            if event == 'call' and frame.f_code.co_filename == PKG and frame.f_code.co_name in ('is_registered','decorator','pretty_python_value'):
                return local
            return None
        return glob
    def run(self, fns, schedule):
        def body(tid):
            sys.settrace(self.tracer(tid))
            try:
                self.res[tid] = ('ok', fns[tid]())
            except BaseException as e:
                self.res[tid] = ('exc', repr(e))
            finally:
                sys.settrace(None)
                self.done[tid] = True
                self.back.release()
        ths = [threading.Thread(target=body, args=(i,)) for i in range(self.n)]
        for t in ths:
            t.start(); self.back.acquire()   # each thread runs to its first boundary (or finishes)
        steps = 0
        sched = iter(schedule)
        while not all(self.done):
            try: tid = next(sched)
            except StopIteration: tid = next(i for i in range(self.n) if not self.done[i])
            if self.done[tid]:
                continue
            self.go[tid].release(); self.back.acquire(); steps += 1
        for t in ths: t.join()
        return self.res, steps

cnt = itertools.count()
def trial(schedule):
    k = next(cnt)
    cls = type('K%d' % k, (), {})
    cls.__module__ = 'fake'
    register_pretty('fake.K%d' % k)(lambda v, ctx: 'PRINTED')
    s = Sched(2)
    return s.run([lambda: pformat(cls()), lambda: pformat(cls())], schedule)

# try schedules: thread0 runs j steps then thread1 runs to completion, then thread0
out = {}
for j in range(0, 30):
    res, steps = trial([0]*j + [1]*200)
    out[j] = res
    
for j, r in out.items(): print(j, r)

print('---- debug')
import linecache
log = []
class Sched2(Sched):
    def tracer(self, tid):
        def local(frame, event, arg):
            if event == 'line':
                log.append((tid, frame.f_code.co_name, frame.f_lineno, linecache.getline(PKG, frame.f_lineno).strip()[:60]))
                self.back.release(); self.go[tid].acquire()
            return local
        def glob(frame, event, arg):
            if event == 'call' and frame.f_code.co_filename == PKG and frame.f_code.co_name in ('is_registered','decorator','pretty_python_value'):
                return local
            return None
        return glob
k = next(cnt)
cls = type('K%d' % k, (), {}); cls.__module__ = 'fake'
register_pretty('fake.K%d' % k)(lambda v, ctx: 'PRINTED')
s = Sched2(2)
print(s.run([lambda: pformat(cls()), lambda: pformat(cls())], [0]*12 + [1]*200))
for l in log: print(l)
