import json, sys, importlib, itertools, random
import sys; pass  # (was: scratch copy with candidate fixes)
from prettyprinter import doc as D
from prettyprinter.doctypes import *
from prettyprinter.layout import layout_smart, layout_fast
from prettyprinter.sdoctypes import SLine, SAnnotationPush, SAnnotationPop
from prettyprinter.render import default_render_to_str

# abstract doc terms (tuples) -> real docs via public combinators
TEXTS = ["a", "bb"]
def leaves():
    return [("t", s) for s in TEXTS] + [("line",), ("soft",), ("hl",)]
memo = {}
def terms(n, classic):
    key = (n, classic)
    if key in memo: return memo[key]
    if n == 1: r = leaves()
    else:
        r = []
        for d in terms(n-1, classic):
            r += [("grp", d), ("nest", d), ("ab", d), ("align", d)]
            if not classic: r += [("ann", d)]
        for k in range(1, n-1):
            for a in terms(k, classic):
                for b in terms(n-1-k, classic):
                    r.append(("cat", a, b))
                    if not classic:
                        r.append(("fc", a, b))
        if not classic and n >= 4:
            for k in range(1, n-2):
                for a in terms(k, classic):
                    for b in terms(n-2-k, classic):
                        r.append(("fill", a, ("line",), b))
    memo[key] = r
    return r

def build(t):
    k = t[0]
    if k == "t": return t[1]
    if k == "line": return LINE
    if k == "soft": return SOFTLINE
    if k == "hl": return HARDLINE
    if k == "grp": return D.group(build(t[1]))
    if k == "nest": return D.nest(2, build(t[1]))
    if k == "ab": return D.always_break(build(t[1]))
    if k == "align": return D.align(build(t[1]))
    if k == "ann": return D.annotate(7, build(t[1]))
    if k == "cat": return D.concat([build(t[1]), build(t[2])])
    if k == "fc": return D.flat_choice(when_broken=build(t[1]), when_flat=build(t[2]))
    if k == "fill": return D.fill([build(x) for x in t[1:]])
    raise ValueError(t)

TEXTID = {}
def tid(s): return TEXTID.setdefault(s, len(TEXTID)+1)

def table(t):
    nodes = []
    def add(rec):
        nodes.append(rec); return len(nodes)
    def go(t):
        k = t[0]
        if k == "t": return add({"k":"t","a":0,"c":[],"n":len(t[1]),"t":tid(t[1])})
        if k == "hl": return add({"k":"hl","a":0,"c":[],"n":0,"t":0})
        if k in ("line","soft"):
            h = add({"k":"hl","a":0,"c":[],"n":0,"t":0})
            f = add({"k":"t","a":0,"c":[],"n":1,"t":tid(" ")}) if k=="line" else add({"k":"nil","a":0,"c":[],"n":0,"t":0})
            return add({"k":"fc","a":0,"c":[h,f],"n":0,"t":0})
        if k in ("grp","ab","align"): c = go(t[1]); return add({"k":k,"a":0,"c":[c],"n":0,"t":0})
        if k == "nest": c = go(t[1]); return add({"k":"nest","a":2,"c":[c],"n":0,"t":0})
        if k == "ann": c = go(t[1]); return add({"k":"ann","a":7,"c":[c],"n":0,"t":0})
        if k in ("cat","fc","fill"):
            cs = [go(x) for x in t[1:]]; return add({"k":k,"a":0,"c":cs,"n":0,"t":0})
        raise ValueError(t)
    root = go(t)
    return nodes, root

def obs(stream):
    out = []
    for s in stream:
        if isinstance(s, str):
            if s: out.append({"k":"t","n":len(s),"t":tid(s),"a":0})
        elif isinstance(s, SLine): out.append({"k":"nl","n":s.indent,"t":0,"a":0})
        elif isinstance(s, SAnnotationPush): out.append({"k":"push","n":0,"t":0,"a":s.value})
        elif isinstance(s, SAnnotationPop): out.append({"k":"pop","n":0,"t":0,"a":s.value})
    return out

N = int(sys.argv[1]); classic = sys.argv[2] == "classic"
cases = []; excs = {}
cid = 0
for n in range(1, N+1):
    for t in terms(n, classic):
        try:
            d = build(t)
        except Exception as e:
            excs.setdefault(type(e).__name__, []).append(t); continue
        nodes, root = table(t)
        for W, R in [(1,1),(3,3),(4,2),(6,6),(6,3),(40,40)]:
            for smart in (True, False):
                L = layout_smart if smart else layout_fast
                try:
                    stream = list(L(d, width=W, ribbon_frac=R/W))
                except Exception as e:
                    excs.setdefault('layout '+type(e).__name__, []).append(t); continue
                cid += 1
                cases.append({"id":cid,"W":W,"R":R,"smart":smart,"nodes":nodes,"root":root,"obs":obs(stream),
                              "c05":classic,"c06":classic,"term":repr(t)})
with open(sys.argv[3], "w") as f:
    for c in cases: f.write(json.dumps(c)+"\n")
print(len(cases), {k:(len(v), v[:2]) for k,v in excs.items()})
