---- MODULE Registry ----
EXTENDS Naturals, Sequences, TLC, FiniteSets, Json
CONSTANTS Fixed, MaxHist

Classes == {"A", "B", "C", "M", "D"}
MRO == [c \in Classes |->
          CASE c = "A" -> <<"A">>
            [] c = "B" -> <<"B", "A">>
            [] c = "C" -> <<"C", "B", "A">>
            [] c = "M" -> <<"M">>
            [] c = "D" -> <<"D", "B", "A", "M">>]
Pids == {1, 2}

VARIABLES direct, deferred, latest, last, h
vars == <<direct, deferred, latest, last, h>>

Init == /\ direct = [c \in Classes |-> 0] /\ deferred = [c \in Classes |-> 0]
        /\ latest = [c \in Classes |-> 0] /\ last = <<"init">> /\ h = <<>>

\* ---------------- abstract rule
RECURSIVE FirstWith(_, _, _)
FirstWith(f, seq, i) == IF i > Len(seq) THEN 0 ELSE IF f[seq[i]] # 0 THEN f[seq[i]] ELSE FirstWith(f, seq, i + 1)
Resolve(t) == FirstWith(latest, MRO[t], 1)

\* ---------------- concrete (code-shaped)
PromoteOne(dir, dfr, c) == <<[dir EXCEPT ![c] = dfr[c]], [dfr EXCEPT ![c] = 0]>>

RECURSIVE PromoteAll(_, _, _, _)
PromoteAll(dir, dfr, seq, i) ==
  IF i > Len(seq) THEN <<dir, dfr>>
  ELSE IF dfr[seq[i]] # 0 THEN LET r == PromoteOne(dir, dfr, seq[i]) IN PromoteAll(r[1], r[2], seq, i + 1)
       ELSE PromoteAll(dir, dfr, seq, i + 1)

RECURSIVE FirstDeferredIdx(_, _, _)
FirstDeferredIdx(dfr, seq, i) == IF i > Len(seq) THEN 0 ELSE IF dfr[seq[i]] # 0 THEN i ELSE FirstDeferredIdx(dfr, seq, i + 1)

\* is_registered(t, check_superclasses, check_deferred, register_deferred=TRUE) side effect, as written in the code
PromoteAsCode(t) ==
  IF direct[t] # 0 THEN <<direct, deferred>>
  ELSE IF deferred[t] # 0 THEN PromoteOne(direct, deferred, t)
  ELSE LET i == FirstDeferredIdx(deferred, MRO[t], 2) IN
       IF i = 0 THEN <<direct, deferred>> ELSE PromoteOne(direct, deferred, MRO[t][i])

Promote(t) == IF Fixed THEN PromoteAll(direct, deferred, MRO[t], 1) ELSE PromoteAsCode(t)

Log(op) == h' = IF Len(h) < MaxHist THEN Append(h, op) ELSE h

RegClass(c, p) == /\ direct' = [direct EXCEPT ![c] = p]
                  /\ deferred' = IF Fixed THEN [deferred EXCEPT ![c] = 0] ELSE deferred
                  /\ latest' = [latest EXCEPT ![c] = p]
                  /\ last' = <<"regc", c, p>> /\ Log(<<"regc", c, p>>)
RegName(c, p) == /\ deferred' = [deferred EXCEPT ![c] = p] /\ UNCHANGED direct
                 /\ latest' = [latest EXCEPT ![c] = p]
                 /\ last' = <<"regn", c, p>> /\ Log(<<"regn", c, p>>)
DoPrint(t) == LET r == Promote(t) IN
            /\ direct' = r[1] /\ deferred' = r[2] /\ UNCHANGED latest
            /\ last' = <<"print", t, FirstWith(r[1], MRO[t], 1), Resolve(t)>>
            /\ Log(<<"print", t, Resolve(t)>>)

Next == /\ Len(h) < MaxHist
        /\ \/ \E c \in Classes, p \in Pids : RegClass(c, p) \/ RegName(c, p)
           \/ \E t \in Classes : DoPrint(t)

DispatchOK == last[1] = "print" => last[3] = last[4]
\* emit every maximal history once
Emit == Len(h) = MaxHist => PrintT(ToJson(h))
====
