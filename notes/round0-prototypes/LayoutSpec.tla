---- MODULE LayoutSpec ----
EXTENDS Naturals, Integers, Sequences, TLC, FiniteSets, Json, IOUtils

Cases == ndJsonDeserialize(IOEnv.CASES)
CONSTANT Strict   \* TRUE: hardline forces enclosing groups to break (property as stated)

BREAK == 0
FLAT == 1
Min(a,b) == IF a < b THEN a ELSE b

\* node: [k |-> kind, a |-> int, c |-> <<child ids>>, n |-> text len, t |-> text id]
Nd(c, i) == Cases[c].nodes[i]
Obs(c) == Cases[c].obs

\* does subtree contain a forced break (hardline / always_break) outside... anywhere that would show in flat rendering
RECURSIVE Forced(_,_)
Forced(c, i) ==
  LET nd == Nd(c, i) IN
  CASE nd.k = "hl" -> TRUE
    [] nd.k = "ab" -> TRUE
    [] nd.k = "fc" -> Forced(c, nd.c[2])      \* flat rendering takes the flat branch
    [] nd.k \in {"t", "nil"} -> FALSE
    [] OTHER -> \E j \in 1..Len(nd.c) : Forced(c, nd.c[j])

RECURSIVE HasText(_,_)
HasText(c, i) ==
  LET nd == Nd(c, i) IN
  CASE nd.k = "t" -> nd.n > 0
    [] nd.k \in {"nil", "hl"} -> FALSE
    [] nd.k = "fc" -> HasText(c, nd.c[2])
    [] OTHER -> \E j \in 1..Len(nd.c) : HasText(c, nd.c[j])

\* line bookkeeping on the observed stream: length of the line that contains position p (after trimming nothing)
RECURSIVE LineEndCol(_,_,_)
LineEndCol(c, p, col) ==
  IF p > Len(Obs(c)) THEN col
  ELSE LET o == Obs(c)[p] IN
       IF o.k = "nl" THEN col
       ELSE IF o.k = "t" THEN LineEndCol(c, p+1, col + o.n)
       ELSE LineEndCol(c, p+1, col)

\* true-column fits scan (used to justify BREAK decisions, C06)
RECURSIVE Fits(_,_,_,_,_,_,_)
Fits(c, smart, W, minNest, left, col, st) ==
  IF left < 0 THEN FALSE
  ELSE IF Len(st) = 0 THEN TRUE
  ELSE LET top == st[Len(st)]
           rest == SubSeq(st, 1, Len(st)-1)
           ind == top[1]  m == top[2]  nd == Nd(c, top[3])
           push(seqOfTriples) == rest \o seqOfTriples
           kids(mm, ii) == [j \in 1..Len(nd.c) |-> <<ii, mm, nd.c[Len(nd.c)+1-j]>>]
       IN CASE nd.k = "nil" -> Fits(c, smart, W, minNest, left, col, rest)
            [] nd.k = "t" -> Fits(c, smart, W, minNest, left - nd.n, col + nd.n, rest)
            [] nd.k \in {"cat", "fill", "ann"} -> Fits(c, smart, W, minNest, left, col, push(kids(m, ind)))
            [] nd.k = "nest" -> Fits(c, smart, W, minNest, left, col, push(kids(m, ind + nd.a)))
            [] nd.k = "align" -> Fits(c, smart, W, minNest, left, col, push(kids(m, col)))
            [] nd.k = "ab" -> FALSE
            [] nd.k = "hl" -> IF smart /\ ind > minNest THEN Fits(c, smart, W, minNest, W - ind, ind, rest) ELSE TRUE
            [] nd.k = "fc" -> Fits(c, smart, W, minNest, left, col, Append(rest, <<ind, m, IF m = FLAT THEN nd.c[2] ELSE nd.c[1]>>))
            [] nd.k = "grp" -> Fits(c, smart, W, minNest, left, col, push(kids(FLAT, ind)))

VARIABLES cs, st, col, pos, used
vars == <<cs, st, col, pos, used>>
\* stack entries: <<indent, mode, node id>>; node id 0 - a = pending annotation pop encoded as <<indent, mode, -a>>

Init == /\ cs \in 1..Len(Cases)
        /\ st = << <<0, BREAK, Cases[cs].root>> >>
        /\ col = 0 /\ pos = 1 /\ used = {}

Top == st[Len(st)]
Rest == SubSeq(st, 1, Len(st)-1)
O == Obs(cs)
W == Cases[cs].W
R == Cases[cs].R

Emit(kind) == pos <= Len(O) /\ O[pos].k = kind /\ pos' = pos + 1

Step ==
  /\ Len(st) > 0
  /\ LET ind == Top[1]  m == Top[2]  id == Top[3] IN
     IF id < 0 THEN  \* annotation pop
        /\ Emit("pop") /\ O[pos].a = -id /\ st' = Rest /\ UNCHANGED <<col, used>>
     ELSE LET nd == Nd(cs, id)
              kids(mm, ii) == [j \in 1..Len(nd.c) |-> <<ii, mm, nd.c[Len(nd.c)+1-j]>>]
          IN
          CASE nd.k = "nil" -> st' = Rest /\ UNCHANGED <<col, pos, used>>
            [] nd.k = "t" -> IF nd.n = 0 THEN st' = Rest /\ UNCHANGED <<col, pos, used>>
                             ELSE Emit("t") /\ O[pos].t = nd.t /\ O[pos].n = nd.n /\ col' = col + nd.n /\ st' = Rest /\ UNCHANGED used
            [] nd.k = "hl" -> /\ (Strict => m = BREAK)
                              /\ (m = FLAT => used' = used \cup {"hardline-in-flat-group"})
                              /\ (m = BREAK => UNCHANGED used)
                              /\ Emit("nl") /\ O[pos].n = ind /\ col' = ind /\ st' = Rest
            [] nd.k = "cat" -> st' = Rest \o kids(m, ind) /\ UNCHANGED <<col, pos, used>>
            [] nd.k = "nest" -> st' = Rest \o kids(m, ind + nd.a) /\ UNCHANGED <<col, pos, used>>
            [] nd.k = "align" -> st' = Rest \o kids(m, col) /\ UNCHANGED <<col, pos, used>>
            [] nd.k = "ann" -> /\ Emit("push") /\ O[pos].a = nd.a
                               /\ st' = (Rest \o << <<ind, m, -nd.a>> >>) \o kids(m, ind) /\ UNCHANGED <<col, used>>
            [] nd.k = "fc" -> st' = Append(Rest, <<ind, m, IF m = FLAT THEN nd.c[2] ELSE nd.c[1]>>) /\ UNCHANGED <<col, pos, used>>
            [] nd.k = "ab" -> /\ (Strict => m = BREAK) /\ st' = Rest \o kids(BREAK, ind) /\ UNCHANGED <<col, pos>>
                              /\ used' = IF m = FLAT THEN used \cup {"always-break-in-flat-group"} ELSE used
            [] nd.k = "grp" ->
                 \E mm \in {FLAT, BREAK} :
                   /\ ((m = FLAT /\ Strict) => mm = FLAT)
                   /\ (mm = FLAT =>
                        /\ (Strict => ~Forced(cs, nd.c[1]))
                        /\ ((Cases[cs].c05 /\ HasText(cs, nd.c[1]) /\ ~Forced(cs, nd.c[1])) =>
                              LineEndCol(cs, pos, col) <= Min(W, ind + R)))
                   /\ (mm = BREAK /\ Cases[cs].c06 /\ m = BREAK) =>
                         ( \/ Forced(cs, nd.c[1])
                           \/ ~Fits(cs, Cases[cs].smart, W, Min(col, ind), Min(W - col, ind + R - col), col,
                                    Append(Rest, <<ind, FLAT, nd.c[1]>>)) )
                   /\ st' = Rest \o kids(mm, ind) /\ UNCHANGED <<col, pos, used>>
            [] nd.k = "fill" ->
                 \* every item independently flat or broken
                 \E ms \in [1..Len(nd.c) -> {FLAT, BREAK}] :
                   /\ ((m = FLAT /\ Strict) => \A j \in 1..Len(nd.c) : ms[j] = FLAT)
                   /\ st' = Rest \o [j \in 1..Len(nd.c) |-> <<ind, ms[Len(nd.c)+1-j], nd.c[Len(nd.c)+1-j]>>]
                   /\ UNCHANGED <<col, pos, used>>

Accepting == Len(st) = 0 /\ pos = Len(O) + 1
Next == Step /\ UNCHANGED cs
Report == Accepting => PrintT(<<"ACCEPT", Cases[cs].id, used>>)
====
