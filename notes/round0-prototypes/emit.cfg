CONSTANTS Fixed = TRUE MaxHist = 3
INIT Init
NEXT Next
INVARIANT DispatchOK
INVARIANT Emit
CHECK_DEADLOCK FALSE
