import sys, os, warnings
warnings.simplefilter('ignore')
import sys as _s; _s.path.insert(0, "/tmp/scratch")
import prettyprinter
from prettyprinter import pformat, comment
PKG = os.path.dirname(prettyprinter.__file__)
mon = sys.monitoring
TOOL = 3
mon.use_tool_id(TOOL, 'verif')
count = 0
def on_line(code, line):
    global count
    if code.co_filename.startswith(PKG):
        count += 1
    else:
        return mon.DISABLE
mon.register_callback(TOOL, mon.events.LINE, on_line)
def steps(v, **kw):
    global count
    count = 0
    mon.set_events(TOOL, mon.events.LINE)
    try: pformat(v, **kw)
    finally: mon.set_events(TOOL, 0)
    return count
def nest_list(n):
    v = [1]
    for _ in range(n): v = [v, 2]
    return v
def nest_dict(n):
    v = {'k': 1}
    for _ in range(n): v = {'k': v, 'j': 2}
    return v
def nest_tuple(n):
    v = (1,)
    for _ in range(n): v = (v,)
    return v
def flat_list(n): return list(range(n))
def flat_dict(n): return {i: str(i) for i in range(n)}
def long_str(n): return 'word ' * n
def long_str_nobreak(n): return 'x' * (5*n)
def deep_str(n):
    v = 'some words here ' * 6
    for _ in range(n): v = [v]
    return v
def commented_list(n):
    v = 1
    for i in range(n): v = [comment(v, 'c%d' % i), 2]
    return v
def commented_dictval(n):
    v = 1
    for i in range(n): v = {'k': comment(v, 'c%d' % i)}
    return v
fams = [('nest_list', nest_list, [8,16,32,64]), ('nest_dict', nest_dict, [8,16,32,64]), ('nest_tuple', nest_tuple, [8,16,32,64]),
        ('flat_list', flat_list, [50,100,200,400,800]), ('flat_dict', flat_dict, [50,100,200,400]), ('long_str', long_str, [50,100,200,400]),
        ('long_str_nobreak', long_str_nobreak, [50,100,200,400]), ('deep_str', deep_str, [8,16,32,64]), ('commented_list', commented_list, [4,8,16,32]),
        ('commented_dictval', commented_dictval, [3,6,12])]
import time
sys.setrecursionlimit(10000)
for name, f, ns in fams:
    row = []
    for n in ns:
        t = time.time()
        try: s = steps(f(n))
        except RecursionError: s = -1
        row.append((n, s, round(time.time()-t,2)))
    ratios = [round(row[i+1][1]/row[i][1],2) for i in range(len(row)-1) if row[i][1] > 0]
    print(name, row, 'ratios', ratios)
