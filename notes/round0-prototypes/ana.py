import json, re, sys
f = sys.argv[1]
cases = {json.loads(l)["id"]: json.loads(l) for l in open(f + ".ndjson")}
def acc(path):
    a = {}
    for l in open(path):
        m = re.match(r'<<"ACCEPT", (\d+), \{(.*)\}>>', l.strip())
        if m: a.setdefault(int(m.group(1)), set()).add(m.group(2))
    return a
s = acc("out_%s_strict.txt" % f); r = acc("out_%s_relaxed.txt" % f)
rej_s = [i for i in cases if i not in s]; rej_r = [i for i in cases if i not in r]
print(f, "cases", len(cases), "strict-rejected", len(rej_s), "relaxed-rejected", len(rej_r))
import collections
print("strict-rejected but relaxed-accepted flags:", collections.Counter(tuple(sorted(r[i])) for i in rej_s if i in r).most_common(5))
seen = set()
for i in rej_r[:4000]:
    c = cases[i]
    if c["term"] in seen: continue
    seen.add(c["term"])
    if len(seen) <= 8:
        print("REJ-relaxed:", c["term"], "W", c["W"], "R", c["R"], "smart", c["smart"], [ (o["k"], o["n"]) for o in c["obs"]])
print("distinct terms rejected under relaxed:", len(seen))
for i in rej_s[:3]:
    c = cases[i]; print("REJ-strict:", c["term"], c["W"], c["R"], c["smart"], [ (o["k"], o["n"]) for o in c["obs"]])
