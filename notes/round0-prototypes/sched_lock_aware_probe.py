import sys, threading, warnings, itertools, importlib, time
which = sys.argv[1]
if which == 'scratch': sys.path.insert(0, '/tmp/scratch')
warnings.simplefilter('ignore')
import prettyprinter
from prettyprinter import pformat, register_pretty
pp = importlib.import_module("prettyprinter.prettyprinter")
PKG = pp.__file__
FUNCS = ('is_registered','decorator','pretty_python_value','get_deferred_key')
class Sched:
    GRACE = 0.05
    def __init__(self, n):
        self.n = n
        self.go = [threading.Semaphore(0) for _ in range(n)]
        self.arrived = [threading.Event() for _ in range(n)]   # thread is parked at a boundary or finished
        self.done = [False]*n
        self.res = [None]*n
    def tracer(self, tid):
        def local(frame, event, arg):
            if event == 'line':
                self.arrived[tid].set()
                self.go[tid].acquire()
            return local
        def glob(frame, event, arg):
            if event == 'call' and frame.f_code.co_filename == PKG and frame.f_code.co_name in FUNCS:
                return local
            return None
        return glob
    def run(self, fns, choose):
        def body(tid):
            sys.settrace(self.tracer(tid))
            try: self.res[tid] = ('ok', fns[tid]())
            except BaseException as e: self.res[tid] = ('exc', repr(e))
            finally:
                sys.settrace(None); self.done[tid] = True; self.arrived[tid].set()
        ths = [threading.Thread(target=body, args=(i,)) for i in range(self.n)]
        for i, t in enumerate(ths):
            t.start(); self.arrived[i].wait()
        trace = []
        step = 0
        while not all(self.done):
            parked = [i for i in range(self.n) if not self.done[i] and self.arrived[i].is_set()]
            if not parked:
                # everybody alive is blocked (on a lock held by ... nobody parked?) -> wait a little
                time.sleep(0.001); continue
            tid = choose(step, parked)
            self.arrived[tid].clear(); self.go[tid].release()
            # wait until it parks again / finishes, or conclude it is blocked on a lock
            if not self.arrived[tid].wait(self.GRACE):
                trace.append((tid, 'blocked'))
            else:
                trace.append((tid, 'step'))
            step += 1
        for t in ths: t.join()
        return self.res, trace
cnt = itertools.count()
def trial(j):
    k = next(cnt)
    cls = type('K%d' % k, (), {}); cls.__module__ = 'fake'
    register_pretty('fake.K%d' % k)(lambda v, ctx: 'PRINTED')
    s = Sched(2)
    def choose(step, parked):
        want = 0 if step < j else 1
        return want if want in parked else parked[0]
    return s.run([lambda: pformat(cls()), lambda: pformat(cls())], choose)
bad = 0
t0 = time.time()
for j in range(0, 40):
    res, trace = trial(j)
    blocked = sum(1 for _, e in trace if e == 'blocked')
    ok = all(r == ('ok', 'PRINTED') for r in res)
    if not ok: bad += 1
    if not ok or blocked: print(j, res, 'steps', len(trace), 'blocked', blocked)
print(prettyprinter.__file__, 'bad schedules:', bad, 'of 40', 'time %.1fs' % (time.time()-t0))
