CONSTANTS Fixed = TRUE MaxHist = 4
INIT Init
NEXT Next
INVARIANT DispatchOK
CHECK_DEADLOCK FALSE
