# differential: abstract dispatch rule vs real registry on random histories (fresh classes per history)
import random, sys, importlib, warnings, itertools
warnings.simplefilter('ignore')
import sys; pass  # (was: scratch copy with candidate fixes)
from prettyprinter import pformat, register_pretty, is_registered
pp = importlib.import_module('prettyprinter.prettyprinter')
random.seed(int(sys.argv[1]))
uid = itertools.count()
def lattice():
    k = next(uid)
    mod = 'lat%d' % k
    def mk(name, bases):
        c = type(name, bases, {}); c.__module__ = mod; return c
    A = mk('A', ()); B = mk('B', (A,)); C = mk('C', (B,)); M = mk('M', ()); D = mk('D', (B, M))
    return dict(A=A, B=B, C=C, M=M, D=D)
def run(hist, mixed_ok):
    L = lattice()
    saved = list(pp._PREDICATE_REGISTRY)
    direct = {}; deferred = {}; order = {}; preds = []
    tagc = itertools.count()
    problems = []
    try:
        for step, op in enumerate(hist):
            kind = op[0]
            if kind in ('regc', 'regn'):
                cls = L[op[1]]; tag = 'T%d' % next(tagc)
                fn = (lambda t: (lambda v, ctx: t))(tag)
                if kind == 'regc':
                    register_pretty(cls)(fn); direct[op[1]] = tag
                else:
                    register_pretty(cls.__module__ + '.' + cls.__qualname__)(fn); deferred[op[1]] = tag
                order[op[1]] = (kind, tag)
            elif kind == 'regp':
                names = op[1]; tag = 'P%d' % next(tagc)
                clss = tuple(L[n] for n in names)
                register_pretty(predicate=(lambda cs: (lambda v: isinstance(v, cs)))(clss))((lambda t: (lambda v, ctx: t))(tag))
                preds.append((names, tag))
            elif kind == 'print':
                cls = L[op[1]]
                got = pformat(cls())
                exp = None
                for c in cls.__mro__[:-1]:
                    n = c.__name__
                    if n in direct or n in deferred:
                        exp = order[n][1]; break   # latest registration for nearest class
                if exp is None:
                    for names, tag in preds:
                        if any(issubclass(cls, L[n]) for n in names): exp = tag; break
                if exp is None: exp = 'REPR'
                g = got if not got.startswith('<') else 'REPR'
                if g != exp: problems.append((step, op, 'got', g, 'exp', exp))
            elif kind == 'isreg':
                cls = L[op[1]]; sup, dfr, reg = op[2:]
                try: got = is_registered(cls, check_superclasses=sup, check_deferred=dfr, register_deferred=reg)
                except ValueError: got = 'VE'
                if (not dfr) and reg: exp = 'VE'
                else:
                    cands = [c.__name__ for c in (cls.__mro__[:-1] if sup else (cls,))]
                    exp = any((n in direct) or (dfr and n in deferred) for n in cands)
                    if not dfr and not exp and any(n in deferred for n in cands): exp = got  # promoted-or-not is unobservable abstractly
                if got != exp: problems.append((step, op, 'got', got, 'exp', exp))
    finally:
        pp._PREDICATE_REGISTRY[:] = saved
    return problems
NAMES = ['A','B','C','M','D']
def rand_hist(n, mixed):
    h = []; kinds = {}
    for _ in range(n):
        r = random.random()
        if r < 0.35:
            c = random.choice(NAMES); k = random.choice(['regc','regn'])
            if not mixed:
                k = kinds.setdefault(c, k)
            h.append((k, c))
        elif r < 0.45: h.append(('regp', tuple(random.sample(NAMES, random.randint(1,2)))))
        elif r < 0.8: h.append(('print', random.choice(NAMES)))
        else:
            dfr = random.random() < 0.7
            h.append(('isreg', random.choice(NAMES), random.random()<0.5, dfr, random.random()<0.5))
    return h
for mixed in (False, True):
    bad = 0; ex = None
    for i in range(3000):
        h = rand_hist(random.randint(1,8), mixed)
        p = run(h, mixed)
        if p:
            bad += 1
            if ex is None or len(h) < len(ex[0]): ex = (h, p)
    print('mixed' if mixed else 'same-kind', 'histories with disagreement:', bad, '/ 3000')
    if ex: print('  shortest:', ex[0], '\n  ', ex[1][:3])
