CONSTANTS Fixed = FALSE MaxHist = 4
INIT Init
NEXT Next
INVARIANT DispatchOK
CHECK_DEADLOCK FALSE
