------------------------------ MODULE CallsMC ------------------------------
(***************************************************************************)
(* C20, design level, for everything OUTSIDE the dispatch path (which       *)
(* RegistryThreads.tla covers): why concurrent calls are independent, and   *)
(* what it takes to lose that.                                              *)
(*                                                                          *)
(* A call is modelled at the grain at which the package touches state that  *)
(* is not its own:                                                          *)
(*                                                                          *)
(*   enter   - (Scoped) read an interpreter-wide setting and raise it for   *)
(*             the duration of the call, remembering the old value;        *)
(*   build   - build / lay out the document; needs `need[t]` units of the   *)
(*             interpreter-wide budget AT THAT MOMENT, fails otherwise;     *)
(*   look    - (Table) read the length of a module-level table that grows  *)
(*             on demand;                                                   *)
(*   grow    - (Table) extend it up to the index wanted, from the length    *)
(*             READ EARLIER;                                                *)
(*   emit    - produce the result (looked up in the table, if any);        *)
(*   leave   - (Scoped) put the remembered setting back.                    *)
(*                                                                          *)
(* In the code as it stands neither feature exists (Scoped = Table = FALSE):*)
(* a call reads the budget and nothing else, every other piece of state is  *)
(* local, and TLC confirms `Safe` - every call returns what it returns when *)
(* run alone - for all interleavings.  With either feature switched on TLC  *)
(* finds the interleaving that breaks `Safe`: these two configurations are  *)
(* the design-level canaries of the check (they are the two shapes of       *)
(* shared state that independent authors actually introduced: a setting     *)
(* saved / raised / restored around the call, and a cache filled by         *)
(* check-then-act).  The code-level schedules (harness/sched.py:            *)
(* run_with_preemption, run_overlapped) are the binding: each observed      *)
(* execution is judged by ConcurrentCalls!Safe, the same predicate.         *)
(***************************************************************************)
EXTENDS Integers, Sequences, FiniteSets, TLC

CONSTANTS Scoped,      \* BOOLEAN: the entry points raise an interpreter-wide budget for the call's duration
          Table,       \* BOOLEAN: the renderer keeps a module-level table that grows on demand
          Threads      \* a subset of {1, 2, 3}: call t looks up index t; call 2 is the deep one

Base == 1              \* the interpreter-wide budget when no call is running
High == 3              \* what a Scoped call raises it to
Need(t)   == IF t = 2 THEN 2 ELSE 1          \* call 2 prints a value nested deeper than Base allows
Wanted(t) == t                               \* the table index call t looks up (its result should be that number)

VARIABLES pc, budget, saved, known, table, res

vars == <<pc, budget, saved, known, table, res>>

\* what call t returns when it runs alone, from the initial state
Alone(t) == IF (IF Scoped THEN High ELSE Base) >= Need(t) THEN Wanted(t) ELSE 0     \* 0 = the call fails (RecursionError)

Init == /\ pc = [t \in Threads |-> "enter"]
        /\ budget = Base
        /\ saved = [t \in Threads |-> 0]          \* 0 = nothing to restore
        /\ known = [t \in Threads |-> 0]
        /\ table = <<>>                           \* table[i] is meant to be i
        /\ res = [t \in Threads |-> -1]

Enter(t) == /\ pc[t] = "enter"
            /\ IF Scoped /\ budget < High
                 THEN /\ saved' = [saved EXCEPT ![t] = budget]
                      /\ budget' = High
                 ELSE UNCHANGED <<saved, budget>>
            /\ pc' = [pc EXCEPT ![t] = "build"]
            /\ UNCHANGED <<known, table, res>>

Build(t) == /\ pc[t] = "build"
            /\ IF budget >= Need(t)
                 THEN /\ pc' = [pc EXCEPT ![t] = IF Table THEN "look" ELSE "emit"]
                      /\ UNCHANGED res
                 ELSE /\ res' = [res EXCEPT ![t] = 0]
                      /\ pc' = [pc EXCEPT ![t] = "leave"]
            /\ UNCHANGED <<budget, saved, known, table>>

Look(t) == /\ pc[t] = "look"
           /\ known' = [known EXCEPT ![t] = Len(table)]
           /\ pc' = [pc EXCEPT ![t] = "grow"]
           /\ UNCHANGED <<budget, saved, table, res>>

Grow(t) == /\ pc[t] = "grow"
           /\ IF Wanted(t) > known[t]
                THEN table' = table \o [i \in 1..(Wanted(t) - known[t]) |-> known[t] + i]
                ELSE UNCHANGED table
           /\ pc' = [pc EXCEPT ![t] = "emit"]
           /\ UNCHANGED <<budget, saved, known, res>>

Emit(t) == /\ pc[t] = "emit"
           /\ res' = [res EXCEPT ![t] = IF Table THEN table[Wanted(t)] ELSE Wanted(t)]
           /\ pc' = [pc EXCEPT ![t] = "leave"]
           /\ UNCHANGED <<budget, saved, known, table>>

Leave(t) == /\ pc[t] = "leave"
            /\ IF saved[t] # 0 THEN budget' = saved[t] ELSE UNCHANGED budget
            /\ pc' = [pc EXCEPT ![t] = "done"]
            /\ UNCHANGED <<saved, known, table, res>>

Next == \E t \in Threads : Enter(t) \/ Build(t) \/ Look(t) \/ Grow(t) \/ Emit(t) \/ Leave(t)

Spec == Init /\ [][Next]_vars

TypeOK == /\ budget \in {Base, High}
          /\ \A t \in Threads : res[t] \in -1..Cardinality(Threads) + 2

\* C20: every finished call returned what it returns alone
Safe == \A t \in Threads : pc[t] = "done" => res[t] = Alone(t)

\* nothing a call set up for its own duration is left behind once all calls are over
Restored == (\A t \in Threads : pc[t] = "done") => budget = Base

\* the table, when there is one, stays what it is meant to be
TableOK == \A i \in 1..Len(table) : table[i] = i
=============================================================================
