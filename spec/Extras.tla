------------------------------- MODULE Extras -------------------------------
(***************************************************************************)
(* Property C17, extras part: which fields the dataclasses / attrs printers  *)
(* show.                                                                     *)
(*   extras/dataclasses.py pretty_dataclass_instance, extras/attrs.py pretty_attrs *)
(*                                                                         *)
(* A class definition is a sequence of fields                                *)
(*   [name, dflt \in {"none","value","factory"}, repr \in BOOLEAN,            *)
(*    same \in BOOLEAN]   (same: the instance holds the field's default)      *)
(* plus the class options frozen / slots (which must not matter).            *)
(*                                                                         *)
(* ABSTRACT rule: the printed keywords are exactly Shown(def): the fields     *)
(* with repr enabled whose value differs from the declared default (or that   *)
(* have no default), in declaration order; when every hidden field still      *)
(* holds its default, evaluating the text reconstructs an equal instance.     *)
(*                                                                         *)
(* EInit enumerates every definition with <= MaxFields fields (emitted as     *)
(* JSON and materialised by the harness with dataclasses.make_dataclass and   *)
(* attr.make_class); VInit validates what the real printers produced.         *)
(***************************************************************************)
EXTENDS Naturals, Sequences, FiniteSets, TLC, Json, IOUtils

CONSTANT MaxFields

FieldOpts == {[dflt |-> "none", repr |-> r, same |-> FALSE] : r \in BOOLEAN}
             \cup {[dflt |-> d, repr |-> r, same |-> s] : d \in {"value", "factory"}, r \in BOOLEAN, s \in BOOLEAN}
Name(i) == CASE i = 1 -> "f1" [] i = 2 -> "f2" [] i = 3 -> "f3" [] OTHER -> "f4"   \* declaration order

Defs == UNION {[1..n -> FieldOpts] : n \in 0..MaxFields}

Shown(def) == {i \in 1..Len(def) : def[i].repr /\ (def[i].dflt = "none" \/ ~def[i].same)}
ShownNames(def) == LET RECURSIVE S(_) S(i) == IF i > Len(def) THEN <<>>
                                             ELSE (IF i \in Shown(def) THEN <<Name(i)>> ELSE <<>>) \o S(i + 1)
                   IN S(1)
Reconstructible(def) == \A i \in 1..Len(def) : (i \notin Shown(def)) => (def[i].dflt # "none" /\ def[i].same)

VARIABLES def, frozen, slots, cs
vars == <<def, frozen, slots, cs>>

EInit == /\ def \in Defs /\ frozen \in BOOLEAN /\ slots \in BOOLEAN /\ cs = 0
         /\ PrintT(<<"DEF", ToJson([fields |-> def, frozen |-> frozen, slots |-> slots])>>)

Cases == ndJsonDeserialize(IOEnv.CASES)
\* case = [id, fields, frozen, slots, names (printed keyword names), callname_ok, equal (evaluation gave an equal instance)]
VInit == /\ cs \in 1..Len(Cases)
         /\ def = Cases[cs].fields /\ frozen = Cases[cs].frozen /\ slots = Cases[cs].slots

Next == FALSE /\ UNCHANGED vars

Bad(c) == (IF c.names # ShownNames(c.fields) THEN {"C17.fields-shown"} ELSE {})
          \cup (IF ~c.callname_ok THEN {"C17.call-name"} ELSE {})
          \cup (IF Reconstructible(c.fields) /\ ~c.equal THEN {"C17.reconstructs"} ELSE {})
Report == cs > 0 => PrintT(<<"DONE", Cases[cs].id, Bad(Cases[cs])>>)

\* design-level sanity: showing is monotone in "differs from default"
ShownSubsetOfRepr == \A i \in Shown(def) : def[i].repr
=============================================================================
