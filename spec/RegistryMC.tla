----------------------------- MODULE RegistryMC -----------------------------
(***************************************************************************)
(* Model checking of Registry: explores ALL reachable (abstract, concrete)   *)
(* state pairs under every interleaving of registrations, prints and         *)
(* is_registered queries, and checks concrete => abstract in every state.    *)
(* With Emit = TRUE a history variable is carried and every history of       *)
(* length HistLen is printed as JSON for replay against the real module.     *)
(***************************************************************************)
EXTENDS Registry, TLC, Json

CONSTANTS NP,        \* printer ids 1..NP
          MaxPreds,  \* bound on the predicate list
          Emit,      \* carry/print histories
          HistLen

Printers == 1..NP
Flags == {<<cs, cd, rd>> : cs \in BOOLEAN, cd \in BOOLEAN, rd \in BOOLEAN}

VARIABLES a, s, h
vars == <<a, s, h>>

Init == a = AbsInit /\ s = ConcInit /\ h = <<>>

Log(ev) == h' = IF Emit THEN Append(h, ev) ELSE h

RegClass(c, p) == /\ a' = ARegClass(a, c, p) /\ s' = CRegClass(s, c, p)
                  /\ Log([op |-> "regc", c |-> c, p |-> p])
RegName(c, p) == /\ a' = ARegName(a, c, p) /\ s' = CRegName(s, c, p)
                 /\ Log([op |-> "regn", c |-> c, p |-> p])
RegPred(q, p) == /\ Len(s.preds) < MaxPreds
                 /\ a' = ARegPred(a, q, p) /\ s' = CRegPred(s, q, p)
                 /\ Log([op |-> "regp", q |-> q, p |-> p])
DoPrint(c) == /\ s' = CPrint(s, c)[2] /\ UNCHANGED a
            /\ Log([op |-> "print", c |-> c])
IsReg(c, f) == /\ s' = CIsReg(s, c, f[1], f[2], f[3])[2] /\ UNCHANGED a
               /\ Log([op |-> "isreg", c |-> c, cs |-> f[1], cd |-> f[2], rd |-> f[3]])

Next == /\ Emit => Len(h) < HistLen
        /\ \/ \E c \in Classes, p \in Printers : RegClass(c, p) \/ RegName(c, p)
           \/ \E q \in Preds, p \in Printers : RegPred(q, p)
           \/ \E c \in Classes : DoPrint(c)
           \/ \E c \in Classes, f \in Flags : IsReg(c, f)

-----------------------------------------------------------------------------
(* concrete => abstract, in every reachable state                            *)

PrintOK == \A c \in Classes : CPrint(s, c)[1] \in AllowedPrint(a, c)

\* prints and queries never change which printer any class gets
Stable == \A c \in Classes :
            /\ \A d \in Classes : CPrint(CPrint(s, d)[2], c)[1] = CPrint(s, c)[1]
            /\ \A d \in Classes, f \in Flags :
                 CPrint(CIsReg(s, d, f[1], f[2], f[3])[2], c)[1] = CPrint(s, c)[1]

IsRegOK == \A c \in Classes, f \in Flags :
             IF ~f[2] /\ f[3] THEN CIsReg(s, c, f[1], f[2], f[3])[1] = "E"
             ELSE CIsReg(s, c, f[1], f[2], f[3])[1] \in AllowedIsReg(a, c, f[1], f[2])

\* register_deferred = FALSE leaves the module state untouched
NoEffect == \A c \in Classes, cs \in BOOLEAN, cd \in BOOLEAN : CIsReg(s, c, cs, cd, FALSE)[2] = s

\* by-class registration wins over an OLDER pending by-name one at once, and a
\* pending by-name entry always refers to a registration newer than direct[c]
PendingIsNewer == \A c \in Classes : s.deferred[c] # 0 => s.deferred[c] = a.nam[c]

\* history emission / bounding
Bound == Len(h) <= HistLen
EmitHist == (Emit /\ Len(h) = HistLen) => PrintT(<<"H", ToJson(h)>>)
=============================================================================
