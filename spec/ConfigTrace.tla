----------------------------- MODULE ConfigTrace -----------------------------
(***************************************************************************)
(* Trace validation for C18.  A case = a history executed on the real        *)
(* package plus the table of reference texts: table[j] = <<cfg, id>> where   *)
(* cfg is a full settings map and id identifies the text                     *)
(* pformat(value, **cfg) returned.                                           *)
(* events:                                                                   *)
(*  [op = "set", args, got]   got = get_default_config() after the call      *)
(*  [op = "call", entry, args, end, text, tail]                              *)
(*       text = id of the produced text with `tail` removed (-1 unknown,     *)
(*       -2 raised), tail = what followed it                                 *)
(***************************************************************************)
EXTENDS Config, TLC, Json, IOUtils

Cases == ndJsonDeserialize(IOEnv.CASES)

VARIABLES tr, i, defs, bad
vars == <<tr, i, defs, bad>>

Init == tr \in 1..Len(Cases) /\ i = 1 /\ defs = Defaults0 /\ bad = {}

TextFor(c, eff) ==
  LET rows == {j \in 1..Len(c.table) : \A k \in KeySet : Get(c.table[j][1], k) = eff[k]}
  IN IF rows = {} THEN -3 ELSE c.table[CHOOSE j \in rows : TRUE][2]

Step ==
  /\ i <= Len(Cases[tr].events)
  /\ i' = i + 1 /\ UNCHANGED tr
  /\ LET e == Cases[tr].events[i] IN
     CASE e.op = "set" ->
            /\ defs' = SetDefault(defs, e.args)
            /\ bad' = bad \cup
                 (IF \A k \in KeySet : Has(e.got, k) /\ Get(e.got, k) = defs'[k]
                  THEN {} ELSE {<<i, "C18.set_default_config">>})
       [] e.op = "call" ->
            LET eff == Effective(defs, Passed(e.entry, e.args)) IN
            /\ defs' = defs
            /\ bad' = bad
                 \cup (IF e.text # TextFor(Cases[tr], eff) THEN {<<i, "C18.effective-settings">>} ELSE {})
                 \cup (IF e.tail # Ending(e.entry, e.end) THEN {<<i, "C18.end">>} ELSE {})
                 \cup (IF \A k \in KeySet : Has(e.got, k) /\ Get(e.got, k) = defs[k]
                       THEN {} ELSE {<<i, "C18.call-changed-defaults">>})

Next == Step
Done == (i = Len(Cases[tr].events) + 1) => PrintT(<<"DONE", Cases[tr].id, bad>>)
=============================================================================
