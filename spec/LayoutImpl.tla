---------------------------- MODULE LayoutImpl ----------------------------
(***************************************************************************)
(* CONCRETE (implementation-shaped) specification of prettyprinter's       *)
(* layout pipeline on documents given as nested terms:                      *)
(*                                                                         *)
(*   doctypes.py   normalize_doc / Doc.normalize      -> NormDoc, Norm      *)
(*   layout.py     fast_/smart_fitting_predicate      -> FitsI              *)
(*   layout.py     best_layout (one elif branch = one CASE arm) -> StepI    *)
(*                                                                         *)
(* This module has no variables: StepI is a function from machine state to  *)
(* machine state which is shared by RunI (batch prediction of the SDoc      *)
(* stream, used for the DRIFT binding and for "concrete => abstract") and   *)
(* by LayoutImplMC (step-wise model checking, ranking function).            *)
(*                                                                         *)
(* Terms (JSON arrays -> TLA+ tuples):                                      *)
(*   <<"t", n, id, r>>  text of length n (0 = empty str), r = rstripped len *)
(*   <<"nil">> <<"hl">>                                                     *)
(*   <<"cat", <<d...>>>>  <<"fill", <<d...>>>>                              *)
(*   <<"nest", i, d>> <<"grp", d>> <<"ab", d>> <<"ann", a, d>>              *)
(*   <<"fc", broken, flat, noa>>   noa = 1: normalize_on_access             *)
(*   <<"align", d>>   the Contextual built by doc.align (hang = align nest) *)
(*   <<"pop", a>>     SAnnotationPop entry living on the engine's stack     *)
(*   <<"cann", text, d>>  Annotated(CommentAnnotation(text), d) (Printers)  *)
(*   <<"lazy", d>>    a Contextual whose evaluator ignores its arguments    *)
(*                    and returns d (_deferred_plain_rerender)              *)
(***************************************************************************)
EXTENDS Naturals, Integers, Sequences, StrSplitFn

BREAK == 0
FLAT == 1
Min(a, b) == IF a < b THEN a ELSE b
Max(a, b) == IF a > b THEN a ELSE b

NILT == <<"nil">>
HLT == <<"hl">>

-----------------------------------------------------------------------------
(* doctypes.py: normalisation                                              *)

RECURSIVE Norm(_), CatFold(_, _, _, _), FillFold(_, _, _, _)

\* normalize_doc(doc): '' -> NIL, other str unchanged, Doc -> doc.normalize()
NormDoc(d) == IF d[1] = "t" THEN (IF d[2] = 0 THEN NILT ELSE d) ELSE Norm(d)

\* Concat.normalize loop: returns <<normalized_docs, propagate_broken>>
CatFold(docs, i, acc, prop) ==
  IF i > Len(docs) THEN <<acc, prop>>
  ELSE LET nd == NormDoc(docs[i]) IN
       CASE nd[1] = "cat" -> CatFold(docs, i + 1, acc \o nd[2], prop)
         [] nd[1] = "ab"  -> CatFold(docs, i + 1, Append(acc, nd[2]), TRUE)
         [] nd[1] = "nil" -> CatFold(docs, i + 1, acc, prop)
         [] OTHER         -> CatFold(docs, i + 1, Append(acc, nd), prop)

\* Fill.normalize loop: items are NOT normalised; an always_break item stays
\* wrapped (so that its content is still laid out broken) and only marks the
\* whole fill as broken.
FillFold(docs, i, acc, prop) ==
  IF i > Len(docs) THEN <<acc, prop>>
  ELSE LET d == docs[i] IN
       IF d[1] = "nil" THEN FillFold(docs, i + 1, acc, prop)
       ELSE FillFold(docs, i + 1, Append(acc, d), prop \/ d[1] = "ab")

Norm(d) ==
  CASE d[1] \in {"t", "nil", "hl", "align", "pop", "pstr", "unmodelled"} -> d
    [] d[1] = "ann" -> <<"ann", d[2], NormDoc(d[3])>>
    [] d[1] = "cann" -> <<"cann", d[2], NormDoc(d[3])>>
    [] d[1] = "lazy" -> d
    [] d[1] = "cat" ->
         LET r == CatFold(d[2], 1, <<>>, FALSE)
             res == IF Len(r[1]) = 0 THEN NILT
                    ELSE IF Len(r[1]) = 1 THEN r[1][1] ELSE <<"cat", r[1]>>
         IN IF Len(r[1]) = 0 THEN NILT
            ELSE IF r[2] THEN <<"ab", res>> ELSE res
    [] d[1] = "nest" ->
         LET inner == NormDoc(d[3]) IN
         IF inner[1] = "ab" THEN <<"ab", <<"nest", d[2], inner[2]>>>>
         ELSE <<"nest", d[2], inner>>
    [] d[1] = "fc" -> <<"fc", d[2], d[3], 1>>
    [] d[1] = "grp" ->
         LET inner == NormDoc(d[2]) IN
         IF inner[1] = "ab" THEN inner
         ELSE IF inner[1] = "nil" THEN NILT ELSE <<"grp", inner>>
    [] d[1] = "ab" ->
         LET inner == NormDoc(d[2]) IN
         IF inner[1] = "ab" THEN inner ELSE <<"ab", inner>>
    [] d[1] = "fill" ->
         LET r == FillFold(d[2], 1, <<>>, FALSE) IN
         IF Len(r[1]) = 0 THEN NILT
         ELSE IF r[2] THEN <<"ab", <<"fill", r[1]>>>> ELSE <<"fill", r[1]>>

\* pretty_str's Contextual (prettyprinter.py: pretty_str.evaluator) for str / bytes over
\* printable ASCII and newline:  <<"pstr", codes, isbytes, strategy, ctx.indent>>.
\* It composes determine_quote_strategy, escape_str_for_quote, str_to_lines
\* (StrSplitFn!Lines) and the four multiline strategies.  Other strings are outside the
\* model (<<"unmodelled">>).
TextT(codes) == <<"t", Len(codes), 0, Len(codes), codes>>
ClassOf(ch) ==
  CASE ch = 32 -> 2 [] ch = 10 -> 3 [] ch = 39 -> 4 [] ch = 34 -> 5 [] ch = 92 -> 6
    [] ch \in 48..57 \cup 65..90 \cup 97..122 \cup {95} -> 1
    [] ch \in 33..126 -> 9
    [] OTHER -> 0
ModelledStr(codes) == \A i \in 1..Len(codes) : ClassOf(codes[i]) # 0
Classes(codes) == [i \in 1..Len(codes) |-> ClassOf(codes[i])] \o <<>>
Count(codes, ch) == Cardinality({i \in 1..Len(codes) : codes[i] = ch})
\* determine_quote_strategy
QuoteOf(codes) == IF Count(codes, 39) = 0 THEN QS
                  ELSE IF Count(codes, 34) = 0 THEN QD
                  ELSE IF Count(codes, 39) <= Count(codes, 34) THEN QS ELSE QD
\* escape_str_for_quote (repr, re-escaped for the chosen quote)
RECURSIVE Escaped(_, _)
Escaped(codes, q) ==
  IF Len(codes) = 0 THEN <<>>
  ELSE LET ch == Head(codes)
           e == CASE ch = 39 -> IF q = QS THEN <<92, 39>> ELSE <<39>>
                  [] ch = 34 -> IF q = QD THEN <<92, 34>> ELSE <<34>>
                  [] ch = 92 -> <<92, 92>>
                  [] ch = 10 -> <<92, 110>>
                  [] OTHER -> <<ch>>
       IN e \o Escaped(Tail(codes), q)
\* pretty_single_line_str (the escape-highlighting annotations inside the literal are
\* not modelled: they do not change the text)
SingleLine(codes, bytes, q) ==
  LET qc == IF q = QS THEN <<39>> ELSE <<34>>
      body == IF Len(codes) = 0 THEN NILT ELSE <<"ann", 6, TextT(Escaped(codes, q))>>
  IN <<"cat", << IF bytes THEN <<"ann", 7, TextT(<<98>>)>> ELSE TextT(<<>>),
                 <<"ann", 6, <<"cat", <<TextT(qc), body, TextT(qc)>>>>>> >>>>
RECURSIVE Slices(_, _, _, _)
Slices(codes, lens, i, from) ==
  IF i > Len(lens) THEN <<>>
  ELSE <<SubSeq(codes, from, from + lens[i] - 1)>> \o Slices(codes, lens, i + 1, from + lens[i])
RECURSIVE Intersperse(_, _, _)
Intersperse(x, ys, i) == IF i > Len(ys) THEN <<>>
                         ELSE (IF i = 1 THEN <<ys[i]>> ELSE <<x, ys[i]>>) \o Intersperse(x, ys, i + 1)
\* build_fncall(ctx, constructor, argdocs=[doc]) around the literal of a str / bytes SUBCLASS instance
\* (d[6] = the constructor's printed name, <<>> for the exact built-in types)
CallWrap(name, i, doc) ==
  IF Len(name) = 0 THEN doc
  ELSE LET soft == <<"fc", HLT, NILT, 0>>
       IN <<"grp", <<"cat", << <<"ann", 3, TextT(name)>>, <<"ann", 13, TextT(<<40>>)>>,
                              <<"nest", i, <<"cat", <<soft, <<"cat", << <<"cat", <<doc, NILT>>>> >>>> >>>>>>,
                              soft, <<"ann", 13, TextT(<<41>>)>> >>>>>>
EvalStr(d, ind, col, pw, R) ==
  LET codes == d[2]
      bytes == d[3]
      name == IF Len(d) >= 6 THEN d[6] ELSE <<>>
      q == QuoteOf(codes)
      flat == SingleLine(codes, bytes, q)
  IN IF ~ModelledStr(codes) THEN <<"unmodelled">>
     ELSE IF Len(codes) + 2 <= Min(pw - col, ind + R - col) THEN CallWrap(name, d[5], flat)
     ELSE LET maxlen == Max(Min(pw, ind + R) - ind - 2, 10)
              ls == Lines(Classes(codes), bytes, FALSE, q, maxlen)
          IN IF Len(ls) <= 1 THEN CallWrap(name, d[5], flat)
             ELSE LET lens == [i \in 1..Len(ls) |-> Len(ls[i])] \o <<>>
                      pieces == Slices(codes, lens, 1, 1)
                      lits == [i \in 1..Len(pieces) |-> SingleLine(pieces[i], bytes, q)] \o <<>>
                      parts == Intersperse(HLT, lits, 1)
                      lp == <<"ann", 13, TextT(<<40>>)>>
                      rp == <<"ann", 13, TextT(<<41>>)>>
                  IN CASE Len(name) > 0 -> CallWrap(name, d[5], <<"ab", <<"cat", parts>>>>)   \* a subclass: always plain
                       [] d[4] = "plain" -> <<"ab", <<"cat", parts>>>>
                       [] d[4] = "hang" -> <<"ab", <<"nest", d[5], <<"cat", parts>>>>>>
                       [] d[4] = "parens" ->
                            <<"ab", <<"cat", <<lp, <<"nest", d[5], <<"cat", <<HLT>> \o parts>>>>, HLT, rp>>>>>>
                       [] d[4] = "indented" ->
                            <<"ab", <<"cat", <<TextT(<<>>), <<"nest", d[5], <<"cat", <<HLT>> \o parts>>>>, NILT,
                                               TextT(<<>>)>>>>>>

\* FlatChoice.when_broken / when_flat.  In a tree-shaped document every
\* FlatChoice object is reached in one mode only, so when_flat is returned
\* un-normalised (its normalisation is armed only after when_broken was read).
FcBroken(d) == IF d[4] = 1 THEN NormDoc(d[2]) ELSE d[2]
FcFlat(d) == d[3]

-----------------------------------------------------------------------------
(* layout.py: the two fitting predicates (one operator, `smart` selects);    *)
(* P = <<page_width, ribbon_width>>                                          *)

Rev(ind, m, docs) == [j \in 1..Len(docs) |-> <<ind, m, docs[Len(docs) + 1 - j]>>] \o <<>>
Pop(st) == SubSeq(st, 1, Len(st) - 1)

RECURSIVE FitsI(_, _, _, _, _, _)
FitsI(smart, P, mn, maxw, left, st) ==
  IF left < 0 THEN FALSE
  ELSE IF Len(st) = 0 THEN TRUE
  ELSE LET top == st[Len(st)]
           rest == Pop(st)
           ind == top[1]
           m == top[2]
           d == top[3]
           k == d[1]
       IN CASE k = "nil" -> FitsI(smart, P, mn, maxw, left, rest)
            [] k = "t" -> FitsI(smart, P, mn, maxw, left - d[2], rest)
            [] k \in {"cat", "fill"} -> FitsI(smart, P, mn, maxw, left, rest \o Rev(ind, m, d[2]))
            [] k \in {"ann", "cann"} -> FitsI(smart, P, mn, maxw, left, Append(rest, <<ind, m, d[3]>>))
            [] k = "lazy" -> FitsI(smart, P, mn, maxw, left, Append(rest, <<ind, m, NormDoc(d[2])>>))
            [] k = "nest" -> FitsI(smart, P, mn, maxw, left, Append(rest, <<ind + d[2], m, d[3]>>))
            [] k = "ab" -> FALSE
            [] k = "hl" -> IF smart /\ ind > mn
                           THEN FitsI(smart, P, mn, maxw, P[1] - ind, rest)
                           ELSE TRUE
            [] k = "fc" -> FitsI(smart, P, mn, maxw, left,
                                 Append(rest, <<ind, m, IF m = FLAT THEN FcFlat(d) ELSE FcBroken(d)>>))
            [] k = "grp" -> FitsI(smart, P, mn, maxw, left, Append(rest, <<ind, FLAT, d[2]>>))
            \* Contextual: NOTE the column handed to the document is relative
            \* (max_width - chars_left), not the output column.
            [] k = "align" -> FitsI(smart, P, mn, maxw, left,
                                    Append(rest, <<ind, m, NormDoc(<<"nest", (maxw - left) - ind, d[2]>>)>>))
            [] k = "pop" -> FitsI(smart, P, mn, maxw, left, rest)
            \* pretty_str's Contextual, evaluated with the RELATIVE column like align
            [] k = "pstr" -> FitsI(smart, P, mn, maxw, left,
                                   Append(rest, <<ind, m, NormDoc(EvalStr(d, ind, maxw - left, P[1], P[2]))>>))
            [] k = "unmodelled" -> FALSE      \* the multi-line string forms are always_break documents

-----------------------------------------------------------------------------
(* layout.py: best_layout.  Machine state = [st, col, out].                 *)

TextOut(d) == [k |-> "t", n |-> d[2], t |-> d[3], a |-> 0, r |-> d[4], s |-> IF Len(d) >= 5 THEN d[5] ELSE <<>>]
LineOut(i) == [k |-> "nl", n |-> i, t |-> 0, a |-> 0, r |-> 0, s |-> <<>>]
PushOut(a) == [k |-> "push", n |-> 0, t |-> 0, a |-> a, r |-> 0, s |-> <<>>]
PopOut(a) == [k |-> "pop", n |-> 0, t |-> 0, a |-> a, r |-> 0, s |-> <<>>]

\* name of the elif branch taken for the top of the stack (for coverage)
Branch(s) == s.st[Len(s.st)][3][1]

StepI(smart, W, R, s) ==
  LET st == s.st
      top == st[Len(st)]
      rest == Pop(st)
      ind == top[1]
      m == top[2]
      d == top[3]
      k == d[1]
      col == s.col
      mn == Min(col, ind)
      avail == Min(W - col, ind + R - col)
      to(newst) == [st |-> newst, col |-> col, out |-> s.out]
  IN CASE k = "nil" -> to(rest)
       [] k = "hl" -> [st |-> rest, col |-> ind, out |-> Append(s.out, LineOut(ind))]
       [] k = "t" -> [st |-> rest, col |-> col + d[2],
                      out |-> IF d[2] = 0 THEN s.out ELSE Append(s.out, TextOut(d))]
       [] k = "cat" -> to(rest \o Rev(ind, m, d[2]))
       [] k = "align" -> to(Append(rest, <<ind, m, NormDoc(<<"nest", col - ind, d[2]>>)>>))
       [] k = "ann" -> [st |-> rest \o << <<ind, m, <<"pop", d[2]>>>>, <<ind, m, d[3]>> >>,
                        col |-> col, out |-> Append(s.out, PushOut(d[2]))]
       [] k = "cann" -> [st |-> rest \o << <<ind, m, <<"pop", -1>>>>, <<ind, m, d[3]>> >>,
                         col |-> col, out |-> Append(s.out, PushOut(-1))]
       [] k = "lazy" -> to(Append(rest, <<ind, m, NormDoc(d[2])>>))
       [] k = "fc" -> to(Append(rest, <<ind, m, IF m = BREAK THEN FcBroken(d) ELSE FcFlat(d)>>))
       [] k = "nest" -> to(Append(rest, <<ind + d[2], m, d[3]>>))
       [] k = "grp" ->
            IF FitsI(smart, <<W, R>>, mn, avail, avail, Append(rest, <<ind, FLAT, d[2]>>))
            THEN to(Append(rest, <<ind, FLAT, d[2]>>))
            ELSE to(Append(rest, <<ind, BREAK, d[2]>>))
       [] k = "fill" ->
            LET docs == d[2] IN
            IF Len(docs) = 0 THEN to(rest)
            ELSE
            LET flatC == <<ind, FLAT, docs[1]>>
                brokC == <<ind, BREAK, docs[1]>>
                doesFit == FitsI(FALSE, <<W, R>>, mn, avail, avail, <<flatC>>)
            IN IF Len(docs) = 1 THEN to(Append(rest, IF doesFit THEN flatC ELSE brokC))
               ELSE
               LET flatW == <<ind, FLAT, docs[2]>>
                   brokW == <<ind, BREAK, docs[2]>>
               IN IF Len(docs) = 2
                  THEN (IF doesFit THEN to(rest \o <<flatW, flatC>>)
                                   ELSE to(rest \o <<brokW, brokC>>))
                  ELSE
                  LET remaining == <<ind, m, <<"fill", SubSeq(docs, 3, Len(docs))>>>>
                      bothFit == FitsI(FALSE, <<W, R>>, mn, avail, avail,
                                       << <<ind, FLAT, <<"cat", SubSeq(docs, 1, 2)>>>> >>)
                  IN IF bothFit THEN to(rest \o <<remaining, flatW, flatC>>)
                     ELSE IF doesFit THEN to(rest \o <<remaining, brokW, flatC>>)
                     ELSE to(rest \o <<remaining, brokW, brokC>>)
       [] k = "ab" -> to(Append(rest, <<ind, BREAK, d[2]>>))
       [] k = "pop" -> [st |-> rest, col |-> col, out |-> Append(s.out, PopOut(d[2]))]
       [] k = "pstr" -> to(Append(rest, <<ind, m, NormDoc(EvalStr(d, ind, col, W, R))>>))
       [] k = "unmodelled" -> [st |-> rest, col |-> col,
                               out |-> Append(s.out, [k |-> "unmodelled", n |-> 0, t |-> 0, a |-> 0, r |-> 0, s |-> <<>>])]

\* ribbon_width = max(0, min(width, round(ribbon_frac * width))), Python's
\* round() is round-half-to-even; ribbon_frac = fn/fd exactly (dyadic).
RoundHalfEven(num, den) ==
  LET q == num \div den
      r == num % den
  IN IF 2 * r < den THEN q
     ELSE IF 2 * r > den THEN q + 1
     ELSE IF q % 2 = 0 THEN q ELSE q + 1
Ribbon(W, fn, fd) == Max(0, Min(W, RoundHalfEven(fn * W, fd)))

InitI(term) == [st |-> << <<0, BREAK, NormDoc(term)>> >>, col |-> 0, out |-> <<>>]

RECURSIVE RunI(_, _, _, _)
RunI(smart, W, R, s) == IF Len(s.st) = 0 THEN s.out ELSE RunI(smart, W, R, StepI(smart, W, R, s))

\* best_layout(doc, W, frac, predicate) as a function
Layout(term, W, fn, fd, smart) == RunI(smart, W, Ribbon(W, fn, fd), InitI(term))

-----------------------------------------------------------------------------
(* Ranking function for termination of best_layout (C12, design level):     *)
(* every step strictly decreases the total weight of the stack.             *)

RECURSIVE Wt(_), WtSeq(_, _)
WtSeq(docs, i) == IF i > Len(docs) THEN 0 ELSE Wt(docs[i]) + WtSeq(docs, i + 1)
Wt(d) ==
  CASE d[1] \in {"t", "nil", "hl", "pop", "unmodelled"} -> 1
    [] d[1] = "pstr" -> 12 + 8 * Len(d[2])
    [] d[1] = "cat" -> 1 + WtSeq(d[2], 1)
    [] d[1] = "fill" -> 1 + WtSeq(d[2], 1) + Len(d[2])
    [] d[1] \in {"grp", "ab"} -> 1 + Wt(d[2])
    [] d[1] = "nest" -> 1 + Wt(d[3])
    [] d[1] \in {"ann", "cann"} -> 2 + Wt(d[3])
    [] d[1] = "lazy" -> 2 + 2 * Wt(d[2])
    \* normalisation may add one always_break wrapper per fill that has an always_break item,
    \* so Wt(Norm(d)) <= 2 * Wt(d); what is normalised on access is counted twice
    [] d[1] = "fc" -> 1 + 2 * Wt(d[2]) + Wt(d[3])
    [] d[1] = "align" -> 2 + 2 * Wt(d[2])

RECURSIVE StackWt(_, _)
StackWt(st, i) == IF i > Len(st) THEN 0 ELSE Wt(st[i][3]) + StackWt(st, i + 1)
=============================================================================
