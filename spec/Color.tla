-------------------------------- MODULE Color --------------------------------
(***************************************************************************)
(* Property C16: coloured output = plain output + well-nested styling.       *)
(*   color.py  colored_render_to_stream (colour stack), render.py as_lines   *)
(*                                                                         *)
(* An SDoc stream is a sequence of items                                     *)
(*   [k |-> "t", s |-> codes]  [k |-> "nl", n |-> indent]                     *)
(*   [k |-> "push", tok |-> T] [k |-> "pop", tok |-> T]                        *)
(* where T > 0 is a syntax token (whose style is Style[T] > 0) and T = 0 any   *)
(* other annotation.  Style 0 is the terminal default (reset state).          *)
(*                                                                         *)
(* ABSTRACT (SpecChars): every character -- including the newline and the     *)
(* indentation written for an SLine -- carries the style of the innermost      *)
(* enclosing TOKEN annotation, 0 when there is none; the characters are those  *)
(* of the plain rendering (last text fragment of every line right-trimmed);    *)
(* at the end the state is 0.                                                  *)
(* CONCRETE (ImplChars): the colour stack as written: push a colour for token  *)
(* annotations only; on the pop of a token annotation drop the top and re-emit *)
(* the new top or reset; a trailing reset when the stack is not empty.         *)
(* Both yield a sequence of <<code, style>> pairs plus the final style.        *)
(***************************************************************************)
EXTENDS Naturals, Integers, Sequences, FiniteSets

NLc == 10
SP == 32
IsBlank(ch) == ch \in {32, 9, 10, 11, 12, 13, 28, 29, 30, 31, 133, 160}
RECURSIVE RStrip(_)
RStrip(s) == IF Len(s) > 0 /\ IsBlank(s[Len(s)]) THEN RStrip(SubSeq(s, 1, Len(s) - 1)) ELSE s

RECURSIVE LastTextIdx(_, _, _)
LastTextIdx(st, p, best) ==
  IF p > Len(st) THEN best
  ELSE IF st[p].k = "nl" THEN best
  ELSE LastTextIdx(st, p + 1, IF st[p].k = "t" THEN p ELSE best)

Styled(codes, sty) == [i \in 1..Len(codes) |-> <<codes[i], sty>>]
Spaces(n) == [i \in 1..n |-> SP]

\* ---------------------------------------------------------------- abstract
\* stack: sequence of token ids (0 for non-token annotations)
RECURSIVE InnerTok(_, _)
InnerTok(stack, i) == IF i = 0 THEN 0 ELSE IF stack[i] > 0 THEN stack[i] ELSE InnerTok(stack, i - 1)

RECURSIVE SpecWalk(_, _, _, _, _, _)
SpecWalk(st, Style, p, lastIdx, stack, out) ==
  IF p > Len(st) THEN out
  ELSE LET it == st[p]
           tok == InnerTok(stack, Len(stack))
           sty == IF tok = 0 THEN 0 ELSE Style[tok]
       IN CASE it.k = "t" ->
                 SpecWalk(st, Style, p + 1, lastIdx, stack,
                          out \o Styled(IF p = lastIdx THEN RStrip(it.s) ELSE it.s, sty))
            [] it.k = "nl" ->
                 SpecWalk(st, Style, p + 1, LastTextIdx(st, p + 1, 0), stack,
                          out \o Styled(<<NLc>> \o Spaces(it.n), sty))
            [] it.k = "push" -> SpecWalk(st, Style, p + 1, lastIdx, Append(stack, it.tok), out)
            [] it.k = "pop" -> SpecWalk(st, Style, p + 1, lastIdx,
                                        IF Len(stack) > 0 THEN SubSeq(stack, 1, Len(stack) - 1) ELSE stack, out)

SpecChars(st, Style) == SpecWalk(st, Style, 1, LastTextIdx(st, 1, 0), <<>>, <<>>)
SpecFinal == 0

\* ---------------------------------------------------------------- concrete
\* state: colorstack (sequence of styles), cur (style in effect on the terminal), out
RECURSIVE ImplWalk(_, _, _, _, _, _, _)
ImplWalk(st, Style, p, lastIdx, cstack, cur, out) ==
  IF p > Len(st) THEN <<out, IF Len(cstack) > 0 THEN 0 ELSE cur>>     \* if colorstack: write(reset)
  ELSE LET it == st[p] IN
       CASE it.k = "t" ->
              ImplWalk(st, Style, p + 1, lastIdx, cstack, cur,
                       out \o Styled(IF p = lastIdx THEN RStrip(it.s) ELSE it.s, cur))
         [] it.k = "nl" ->
              ImplWalk(st, Style, p + 1, LastTextIdx(st, p + 1, 0), cstack, cur,
                       out \o Styled(<<NLc>> \o Spaces(it.n), cur))
         [] it.k = "push" ->
              IF it.tok > 0      \* isinstance(sdoc.value, Token)
              THEN ImplWalk(st, Style, p + 1, lastIdx, Append(cstack, Style[it.tok]), Style[it.tok], out)
              ELSE ImplWalk(st, Style, p + 1, lastIdx, cstack, cur, out)
         [] it.k = "pop" ->
              IF it.tok > 0 /\ Len(cstack) > 0
              THEN LET ns == SubSeq(cstack, 1, Len(cstack) - 1) IN
                   ImplWalk(st, Style, p + 1, lastIdx, ns, IF Len(ns) > 0 THEN ns[Len(ns)] ELSE 0, out)
              ELSE ImplWalk(st, Style, p + 1, lastIdx, cstack, cur, out)

Impl(st, Style) == ImplWalk(st, Style, 1, LastTextIdx(st, 1, 0), <<>>, 0, <<>>)
ImplChars(st, Style) == Impl(st, Style)[1]
ImplFinal(st, Style) == Impl(st, Style)[2]

\* well-nestedness of a stream (what the layout engine guarantees, C04.annot)
RECURSIVE WellNested(_, _, _)
WellNested(st, p, stack) ==
  IF p > Len(st) THEN Len(stack) = 0
  ELSE IF st[p].k = "push" THEN WellNested(st, p + 1, Append(stack, st[p].tok))
  ELSE IF st[p].k = "pop"
       THEN Len(stack) > 0 /\ stack[Len(stack)] = st[p].tok /\ WellNested(st, p + 1, SubSeq(stack, 1, Len(stack) - 1))
  ELSE WellNested(st, p + 1, stack)
RECURSIVE Depth(_, _, _, _)
Depth(st, p, d, mx) == IF p > Len(st) THEN mx
                       ELSE IF st[p].k = "push" THEN Depth(st, p + 1, d + 1, IF d + 1 > mx THEN d + 1 ELSE mx)
                       ELSE IF st[p].k = "pop" THEN Depth(st, p + 1, d - 1, mx)
                       ELSE Depth(st, p + 1, d, mx)
=============================================================================
