---------------------------- MODULE StrSplitTrace ----------------------------
(***************************************************************************)
(* Binding of StrSplit to the real str_to_lines, and the output-level        *)
(* acceptance of C02.                                                        *)
(* case (kind = "split"): [id, s, bytes, path, q, maxLen, lines] where lines  *)
(*   is what list(str_to_lines(max_len, quote, s, pattern)) returned, as      *)
(*   class-code sequences. ABSTRACT: Concat(lines) = s, no empty line;        *)
(*   CONCRETE: the machine of StrSplit yields exactly these lines (DRIFT).    *)
(* case (kind = "pieces"): [id, s, bytes, pieces, prefixes] -- the decoded    *)
(*   string-literal tokens found in a pformat output at the placement of s    *)
(*   (code points) and whether each carried a b prefix.                       *)
(***************************************************************************)
EXTENDS StrSplit, Json, IOUtils

Cases == ndJsonDeserialize(IOEnv.CASES)

VARIABLE cs
tvars == <<vars, cs>>

TInit == /\ cs \in 1..Len(Cases)
         /\ s = Cases[cs].s /\ bytes = Cases[cs].bytes /\ path = Cases[cs].path
         /\ q = Cases[cs].q /\ maxLen = Cases[cs].maxLen
         /\ pc = IF Cases[cs].kind = "split" THEN "start" ELSE "done"
         /\ parts = <<>> /\ pi = 1 /\ np = <<>> /\ nws = FALSE
         /\ cur = <<>> /\ ccount = 0 /\ clen = 0 /\ lines = <<>>

TNext == Next /\ UNCHANGED cs

AbstractSplitOK(c) == /\ Concat(c.lines) = c.s
                      /\ \A i \in 1..Len(c.lines) : Len(c.lines[i]) > 0

\* output level: adjacent literals concatenate to the value, none is empty unless the
\* value is (then exactly one piece), every piece carries the b prefix iff bytes
PiecesOK(c) == /\ Concat(c.pieces) = c.s
               /\ Len(c.pieces) >= 1
               /\ (Len(c.s) > 0 => \A i \in 1..Len(c.pieces) : Len(c.pieces[i]) > 0)
               /\ (Len(c.s) = 0 => Len(c.pieces) = 1)
               /\ \A i \in 1..Len(c.prefixes) : c.prefixes[i] = c.bytes

Report ==
  LET c == Cases[cs] IN
  /\ (c.kind = "pieces" /\ PiecesOK(c)) => PrintT(<<"ACCEPT", c.id>>)
  /\ (c.kind = "split" /\ pc = "start" /\ AbstractSplitOK(c)) => PrintT(<<"ACCEPT", c.id>>)
  /\ (c.kind = "split" /\ pc = "done" /\ lines = c.lines) => PrintT(<<"MODEL", c.id>>)
=============================================================================
