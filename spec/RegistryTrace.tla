---------------------------- MODULE RegistryTrace ----------------------------
(***************************************************************************)
(* Trace validation: executions recorded from the real module               *)
(* (prettyprinter.prettyprinter) are replayed against Registry.             *)
(* One behaviour per trace; the verdict is total: the set `bad` names every  *)
(* (position, clause) at which the ABSTRACT rule rejects the observation      *)
(* (=> VIOLATION), the set `drift` every position at which the CONCRETE      *)
(* transcription predicts something else (=> DRIFT).                         *)
(*                                                                         *)
(* event = [op, c, p, q, cs, cd, rd, res, proj]                              *)
(*   res: print -> printer id (0 = repr, -1 = raised)                        *)
(*        isreg -> "T" / "F" / "E" (ValueError) / "X" (other exception)      *)
(*   proj: [direct, deferred : [Classes -> id], npreds] read after the call  *)
(***************************************************************************)
EXTENDS Registry, TLC, Json, IOUtils

Cases == ndJsonDeserialize(IOEnv.CASES)

VARIABLES tr, i, a, s, last, prev, bad, drift
vars == <<tr, i, a, s, last, prev, bad, drift>>

NoLast == [c \in Classes |-> -2]
ProjOf(p) == [direct |-> [c \in Classes |-> p.direct[c]],
              deferred |-> [c \in Classes |-> p.deferred[c]],
              npreds |-> p.npreds]

Init == /\ tr \in 1..Len(Cases)
        /\ i = 1 /\ a = AbsInit /\ s = ConcInit
        /\ last = NoLast /\ prev = Projection(ConcInit)
        /\ bad = {} /\ drift = {}

Ev == Cases[tr].events[i]

Step ==
  /\ i <= Len(Cases[tr].events)
  /\ i' = i + 1 /\ UNCHANGED tr
  /\ LET e == Ev
         obsProj == ProjOf(e.proj)
     IN
     /\ prev' = obsProj
     /\ CASE e.op = "regc" ->
               /\ a' = ARegClass(a, e.c, e.p) /\ s' = CRegClass(s, e.c, e.p)
               /\ last' = NoLast /\ bad' = bad
               /\ drift' = IF Projection(s') # obsProj THEN drift \cup {i} ELSE drift
          [] e.op = "regn" ->
               /\ a' = ARegName(a, e.c, e.p) /\ s' = CRegName(s, e.c, e.p)
               /\ last' = NoLast /\ bad' = bad
               /\ drift' = IF Projection(s') # obsProj THEN drift \cup {i} ELSE drift
          [] e.op = "regp" ->
               /\ a' = ARegPred(a, e.q, e.p) /\ s' = CRegPred(s, e.q, e.p)
               /\ last' = NoLast /\ bad' = bad
               /\ drift' = IF Projection(s') # obsProj THEN drift \cup {i} ELSE drift
          [] e.op = "print" ->
               LET r == CPrint(s, e.c) IN
               /\ a' = a /\ s' = r[2]
               /\ last' = [last EXCEPT ![e.c] = e.res]
               /\ bad' = bad
                     \cup (IF e.res \notin AllowedPrint(a, e.c) THEN {<<i, "C15.dispatch">>} ELSE {})
                     \cup (IF last[e.c] # -2 /\ last[e.c] # e.res THEN {<<i, "C15.stable">>} ELSE {})
               /\ drift' = IF r[1] # e.res \/ Projection(r[2]) # obsProj THEN drift \cup {i} ELSE drift
          [] e.op = "isreg" ->
               LET r == CIsReg(s, e.c, e.cs, e.cd, e.rd)
                   illegal == ~e.cd /\ e.rd
                   pred == r[1]
               IN
               /\ a' = a /\ s' = r[2] /\ last' = last
               /\ bad' = bad
                     \cup (IF illegal
                           THEN (IF e.res # "E" THEN {<<i, "C15.flags-error">>} ELSE {})
                           ELSE IF e.res \notin AllowedIsReg(a, e.c, e.cs, e.cd)
                                THEN {<<i, "C15.is_registered">>} ELSE {})
                     \cup (IF ~e.rd /\ obsProj # prev THEN {<<i, "C15.no-effect">>} ELSE {})
               /\ drift' = IF pred # e.res \/ Projection(r[2]) # obsProj THEN drift \cup {i} ELSE drift

Next == Step

Done == (i = Len(Cases[tr].events) + 1) => PrintT(<<"DONE", Cases[tr].id, bad, drift>>)
=============================================================================
