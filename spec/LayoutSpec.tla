---------------------------- MODULE LayoutSpec ----------------------------
(***************************************************************************)
(* ABSTRACT (property-level) specification of the layout engine:            *)
(* properties C04, C05, C06.                                                *)
(*                                                                         *)
(* A document denotes a SET of layouts: the renderings obtained under some  *)
(* assignment of flat/broken to its groups and fill items.  This module is  *)
(* the nondeterministic stack machine that enumerates that set while        *)
(* consuming an OBSERVED SDoc stream; a stream is admissible iff some       *)
(* behaviour reaches  st = <<>> /\ pos = Len(obs) + 1.                      *)
(*                                                                         *)
(* Named clauses (guards of the machine):                                   *)
(*   C04.order   text fragments once each, in document order (stack order)  *)
(*   C04.indent  SLine(n): n = enclosing nest offsets; align = column       *)
(*   C04.choice  flat_choice shows when_flat only in FLAT mode              *)
(*   C04.forced  hardline / always_break content is in BREAK mode and every *)
(*               enclosing group is broken (Strict)                         *)
(*   C04.annot   push/pop properly nested around the wrapped fragments      *)
(*   C05.flat    a group chosen FLAT: whole rendered line <= W and          *)
(*               <= group indent + R                                        *)
(*   C06.break   a group chosen BROKEN (no forced break inside, BREAK        *)
(*               context) must be justified by the true-column scan Fits    *)
(*                                                                         *)
(* Documents are node tables: Cases[c].nodes[i] = [k, a, c, n, t]           *)
(* Observations: Cases[c].obs[p] = [k \in {"t","nl","push","pop"}, n, t, a, r]*)
(* (r = length of a text fragment after right-trimming).                    *)
(*                                                                         *)
(* The same machine also consumes the stream PREDICTED by the concrete      *)
(* specification LayoutImpl (src = "impl"), which is how TLC checks         *)
(* concrete => abstract over the bounded universe, and reports DRIFT when   *)
(* the prediction and the real stream differ.                               *)
(***************************************************************************)
EXTENDS LayoutImpl, TLC, FiniteSets, Json, IOUtils

Cases == ndJsonDeserialize(IOEnv.CASES)

Nd(c, i) == Cases[c].nodes[i]

\* prediction of the concrete spec for the cases that carry a term
ImplStreams ==
  [i \in 1..Len(Cases) |->
     IF Cases[i].model
     THEN Layout(Cases[i].term, Cases[i].W, Cases[i].fn, Cases[i].fd, Cases[i].smart)
     ELSE <<>>]

\* observation records carry an extra field r; compare on the common fields
SameItem(x, y) == x.k = y.k /\ x.n = y.n /\ x.t = y.t /\ x.a = y.a
SameStream(xs, ys) == Len(xs) = Len(ys) /\ \A p \in 1..Len(xs) : SameItem(xs[p], ys[p])

Drift(i) == Cases[i].model /\ ~SameStream(ImplStreams[i], Cases[i].obs)

-----------------------------------------------------------------------------
(* static document predicates                                              *)

RECURSIVE Forced(_, _)
\* a hardline / always_break lies on the FLAT path of the subtree
Forced(c, i) ==
  LET nd == Nd(c, i) IN
  CASE nd.k \in {"hl", "ab"} -> TRUE
    [] nd.k = "fc" -> Forced(c, nd.c[2])
    [] nd.k \in {"t", "nil", "ctx"} -> FALSE
    [] OTHER -> \E j \in 1..Len(nd.c) : Forced(c, nd.c[j])

RECURSIVE FirstForced(_, _), FirstOf(_, _, _)
\* the kind ("hl" / "ab" / "none") of the FIRST forcing node on the flat path, in document order: the known
\* finding is that the fitting predicates answer "fits" when they MEET A HARDLINE in flat mode; an always_break
\* met first makes them answer "does not fit", so a group laid out flat over it is a different defect
FirstForced(c, i) ==
  LET nd == Nd(c, i) IN
  CASE nd.k = "hl" -> "hl"
    [] nd.k = "ab" -> "ab"
    [] nd.k = "fc" -> FirstForced(c, nd.c[2])
    [] nd.k \in {"t", "nil", "ctx"} -> "none"
    [] OTHER -> FirstOf(c, nd.c, 1)
FirstOf(c, kids, j) ==
  IF j > Len(kids) THEN "none"
  ELSE LET f == FirstForced(c, kids[j]) IN IF f # "none" THEN f ELSE FirstOf(c, kids, j + 1)

RECURSIVE HasText(_, _)
HasText(c, i) ==
  LET nd == Nd(c, i) IN
  CASE nd.k = "t" -> nd.n > 0
    [] nd.k \in {"nil", "hl"} -> FALSE
    [] nd.k = "ctx" -> TRUE
    [] nd.k = "fc" -> HasText(c, nd.c[2])
    [] OTHER -> \E j \in 1..Len(nd.c) : HasText(c, nd.c[j])

RECURSIVE HasChoice(_, _)
\* flat and broken renderings of the subtree can differ
HasChoice(c, i) ==
  LET nd == Nd(c, i) IN
  CASE nd.k \in {"fc", "fill", "ctx"} -> TRUE
    [] nd.k \in {"t", "nil", "hl"} -> FALSE
    [] OTHER -> \E j \in 1..Len(nd.c) : HasChoice(c, nd.c[j])

RECURSIVE Hoists(_, _)
\* the document is (after the engine's normalisation, which hoists always_break
\* through concat / nest / group / evaluated align, and marks a fill that has an
\* always_break item) a forced-break document
Hoists(c, i) ==
  LET nd == Nd(c, i) IN
  CASE nd.k = "ab" -> TRUE
    [] nd.k \in {"cat", "nest", "grp", "align"} -> \E j \in 1..Len(nd.c) : Hoists(c, nd.c[j])
    [] nd.k = "fill" -> \E j \in 1..Len(nd.c) : Nd(c, nd.c[j]).k = "ab"
    [] OTHER -> FALSE

-----------------------------------------------------------------------------
(* reading the observed line (C05): rendered end column of the line that    *)
(* contains position p, given that col columns are already on it.  The      *)
(* renderer trims the last text fragment of each line.                      *)

RECURSIVE TextAhead(_, _)
TextAhead(O, p) ==
  IF p > Len(O) THEN FALSE
  ELSE IF O[p].k = "nl" THEN FALSE
  ELSE IF O[p].k = "t" THEN TRUE ELSE TextAhead(O, p + 1)

RECURSIVE LineEnd(_, _, _)
LineEnd(O, p, col) ==
  IF p > Len(O) THEN col
  ELSE IF O[p].k = "nl" THEN col
  ELSE IF O[p].k = "t"
       THEN (IF TextAhead(O, p + 1) THEN LineEnd(O, p + 1, col + O[p].n) ELSE col + O[p].r)
       ELSE LineEnd(O, p + 1, col)

-----------------------------------------------------------------------------
(* C06: true-column look-ahead.  Stack entries are <<indent, mode, node, aux>>;*)
(* node = 0 is a pending annotation pop; for a fill, aux = next item.       *)

\* `past`: the look-ahead has moved on to a following line (smart strategy only).  The property lets a forced-break
\* document break a fitting group only when it "starts later on that SAME line"; on a following line it does not.
\* The engine's smart predicate nevertheless answers "does not fit" when it meets, on a following deeper line, an
\* always_break that normalisation could not hoist away (one below annotate / flat_choice / fill / align): that is
\* the recorded finding C06-forced-break-on-following-line, switched on per case with `rnl` (relax next line).
\* Stack entries may carry a 5th component: TRUE = reached through annotate / flat_choice / fill / align ("hidden").
Hid(e) == Len(e) >= 5 /\ e[5]

RECURSIVE Fits(_, _, _, _, _, _, _, _, _)
Fits(c, smart, W, mn, left, col, st, past, rnl) ==
  IF left < 0 THEN FALSE
  ELSE IF Len(st) = 0 THEN TRUE
  ELSE LET top == st[Len(st)]
           rest == SubSeq(st, 1, Len(st) - 1)
           ind == top[1]
           m == top[2]
       IN IF top[3] = 0 THEN Fits(c, smart, W, mn, left, col, rest, past, rnl)
          ELSE
          LET nd == Nd(c, top[3])
              kidsH(mm, ii, from, h) ==
                [j \in 1..(Len(nd.c) + 1 - from) |-> <<ii, mm, nd.c[Len(nd.c) + 1 - j], 1, h>>]
              kids(mm, ii, from) == kidsH(mm, ii, from, Hid(top))
          IN \* "a forced-break document starts later on that same line"
             IF ~past /\ Hoists(c, top[3]) THEN FALSE ELSE
             CASE nd.k = "nil" -> Fits(c, smart, W, mn, left, col, rest, past, rnl)
               [] nd.k = "t" -> Fits(c, smart, W, mn, left - nd.n, col + nd.n, rest, past, rnl)
               [] nd.k = "cat" -> Fits(c, smart, W, mn, left, col, rest \o kids(m, ind, 1), past, rnl)
               [] nd.k = "ann" -> Fits(c, smart, W, mn, left, col, rest \o kidsH(m, ind, 1, TRUE), past, rnl)
               [] nd.k = "fill" -> Fits(c, smart, W, mn, left, col, rest \o kidsH(m, ind, top[4], TRUE), past, rnl)
               [] nd.k = "nest" -> Fits(c, smart, W, mn, left, col, rest \o kids(m, ind + nd.a, 1), past, rnl)
               [] nd.k = "align" -> Fits(c, smart, W, mn, left, col, rest \o kidsH(m, col + nd.a, 1, TRUE), past, rnl)
               [] nd.k = "ab" ->
                    IF ~past THEN FALSE
                    ELSE IF Hid(top) /\ rnl THEN FALSE
                    ELSE Fits(c, smart, W, mn, left, col, rest \o kids(BREAK, ind, 1), past, rnl)
               [] nd.k = "ctx" -> FALSE
               [] nd.k = "hl" -> IF smart /\ ind > mn
                                 THEN Fits(c, smart, W, mn, W - ind, ind, rest, TRUE, rnl)
                                 ELSE TRUE
               [] nd.k = "fc" -> Fits(c, smart, W, mn, left, col,
                                      Append(rest, <<ind, m, IF m = FLAT THEN nd.c[2] ELSE nd.c[1], 1, TRUE>>), past, rnl)
               [] nd.k = "grp" -> Fits(c, smart, W, mn, left, col, rest \o kids(FLAT, ind, 1), past, rnl)

-----------------------------------------------------------------------------
VARIABLES cs, src, st, col, pos, used,
          fbase,   \* stack height below the outermost FLAT region being laid out (-1: none)
          taint    \* a HARDLINE was passed in flat mode inside that region (relaxed runs only)
vars == <<cs, src, st, col, pos, used, fbase, taint>>

HLF == "hardline-in-flat-group"
ABF == "always-break-in-flat-group"
\* the relaxation a flat group / fill item over forced content i stands for
FlatOverForced(i) == IF FirstForced(cs, i) = "hl" THEN HLF ELSE ABF

O == IF src = "impl" THEN ImplStreams[cs] ELSE Cases[cs].obs
W == Cases[cs].W
R == Ribbon(Cases[cs].W, Cases[cs].fn, Cases[cs].fd)
Strict == Cases[cs].strict

Init == /\ cs \in 1..Len(Cases)
        /\ src \in {"obs"} \cup (IF Drift(cs) THEN {"impl"} ELSE {})
        /\ st = << <<0, BREAK, Cases[cs].root, 1>> >>
        /\ col = 0 /\ pos = 1 /\ used = {} /\ fbase = -1 /\ taint = FALSE
        /\ (Drift(cs) /\ src = "impl") => PrintT(<<"DRIFT", Cases[cs].id, ImplStreams[cs]>>)

Top == st[Len(st)]
Rest == SubSeq(st, 1, Len(st) - 1)

Emit(kind) == pos <= Len(O) /\ O[pos].k = kind /\ pos' = pos + 1

\* Groups and fill items are assigned flat/broken INDEPENDENTLY: the property
\* speaks of "some assignment of flat/broken to its groups and fill items" and
\* does not require a group nested in a flat group to be flat.  (The engine
\* does break such a group when align() lowered the indentation and with it
\* the ribbon: hang(2, group(align(concat([group(...), ...])))).)  The mode of
\* a flat_choice is that of the innermost enclosing group / fill item.
ModeOK(m, mm) == TRUE

\* The follow-on of the known finding is confined to the flat region in which the hardline was passed: once the
\* stack is back at the height it had when the outermost flat group / fill item was entered, the taint is gone.
InRegion == fbase # -1 /\ Len(st) > fbase
Tainted == InRegion /\ taint

Step ==
  /\ Len(st) > 0
  /\ LET ind == Top[1]
         m == Top[2]
         id == Top[3]
     IN
     IF id = 0 THEN  \* C04.annot: annotation pop
        /\ Emit("pop") /\ O[pos].a = Top[4] /\ st' = Rest /\ UNCHANGED <<col, used>>
     ELSE
     LET nd == Nd(cs, id)
         kids(mm, ii) == [j \in 1..Len(nd.c) |-> <<ii, mm, nd.c[Len(nd.c) + 1 - j], 1>>]
     IN
     CASE nd.k = "nil" -> st' = Rest /\ UNCHANGED <<col, pos, used>>
       [] nd.k = "t" ->
            IF nd.n = 0 THEN st' = Rest /\ UNCHANGED <<col, pos, used>>
            ELSE /\ Emit("t") /\ O[pos].t = nd.t /\ O[pos].n = nd.n     \* C04.order
                 /\ col' = col + nd.n /\ st' = Rest /\ UNCHANGED used
       [] nd.k = "hl" ->
            /\ (Strict => m = BREAK)                                     \* C04.forced
            /\ used' = IF m = FLAT THEN used \cup {HLF} ELSE used
            /\ Emit("nl") /\ O[pos].n = ind                              \* C04.indent
            /\ col' = ind /\ st' = Rest
       [] nd.k = "cat" -> st' = Rest \o kids(m, ind) /\ UNCHANGED <<col, pos, used>>
       [] nd.k = "nest" -> st' = Rest \o kids(m, ind + nd.a) /\ UNCHANGED <<col, pos, used>>
       \* align(d) = nest to the current column; hang(i, d): a = i
       [] nd.k = "align" -> st' = Rest \o kids(m, col + nd.a) /\ UNCHANGED <<col, pos, used>>
       \* opaque contextual document: replaced by what its function returned
       \* when the engine evaluated it at this (indent, column)
       [] nd.k = "ctx" ->
            \E e \in 1..Len(Cases[cs].ctxt) :
              LET en == Cases[cs].ctxt[e] IN
              /\ en.node = id /\ en.ind = ind /\ en.col = col
              /\ st' = Append(Rest, <<ind, m, en.root, 1>>)
              /\ UNCHANGED <<col, pos, used>>
       [] nd.k = "ann" ->                                                \* C04.annot
            /\ Emit("push") /\ O[pos].a = nd.a
            /\ st' = (Rest \o << <<ind, m, 0, nd.a>> >>) \o kids(m, ind)
            /\ UNCHANGED <<col, used>>
       [] nd.k = "fc" ->                                                 \* C04.choice
            \* (relaxed only) once a hardline was emitted inside a flat group the
            \* engine's modes are unreliable: an always_break hoisted through a concat
            \* also breaks the siblings that follow it inside the "flat" group
            \E b \in (IF m = BREAK THEN {1} ELSE IF ~Strict /\ Tainted THEN {1, 2} ELSE {2}) :
              /\ st' = Append(Rest, <<ind, m, nd.c[b], 1>>)
              /\ UNCHANGED <<col, pos, used>>
       [] nd.k = "ab" ->                                                 \* C04.forced
            /\ m = BREAK \/ ~Strict
            \* (relaxed only) in flat mode: a follow-on of the known finding once a hardline was passed in flat
            \* mode, otherwise a relaxation of its own (which is not a known finding)
            /\ used' = IF m = BREAK \/ Tainted THEN used ELSE used \cup {ABF}
            /\ st' = Rest \o kids(BREAK, ind) /\ UNCHANGED <<col, pos>>
       [] nd.k = "grp" ->
            IF ~HasChoice(cs, nd.c[1])
            THEN \* both renderings coincide: explained either way, no obligation
                 /\ st' = Rest \o kids(IF Forced(cs, nd.c[1]) THEN BREAK ELSE m, ind)
                 /\ UNCHANGED <<col, pos, used>>
            ELSE
            \E mm \in {FLAT, BREAK} :
              /\ ModeOK(m, mm)
              /\ (mm = FLAT) =>
                   /\ (Strict => ~Forced(cs, nd.c[1]))                   \* C04.forced
                   /\ (Cases[cs].c05 /\ HasText(cs, nd.c[1]) /\ ~Forced(cs, nd.c[1]))
                        => LineEnd(O, pos, col) <= Min(W, ind + R)       \* C05.flat
              /\ (mm = BREAK /\ Cases[cs].c06 /\ ~Forced(cs, nd.c[1])) =>
                   ~Fits(cs, Cases[cs].smart, W, Min(col, ind),
                         Min(W - col, ind + R - col), col,
                         Append(Rest, <<ind, FLAT, nd.c[1], 1>>), FALSE, Cases[cs].rnl)   \* C06.break
              /\ st' = Rest \o kids(mm, ind) /\ UNCHANGED <<col, pos>>
              \* (relaxed only) a group with a forced break on its flat path laid out flat
              /\ used' = IF mm = FLAT /\ Forced(cs, nd.c[1]) THEN used \cup {FlatOverForced(nd.c[1])} ELSE used
       [] nd.k = "fill" ->
            \* one item at a time (aux = index of the next item); every content
            \* item and separator is flat or broken on its own
            LET j == Top[4] IN
            IF j > Len(nd.c) THEN st' = Rest /\ UNCHANGED <<col, pos, used>>
            ELSE \E mm \in {FLAT, BREAK} :
                   /\ ModeOK(m, mm)
                   /\ (mm = FLAT /\ Strict) => ~Forced(cs, nd.c[j])
                   /\ (mm = BREAK) => HasChoice(cs, nd.c[j]) \/ Forced(cs, nd.c[j])
                   /\ st' = Rest \o << <<ind, m, id, j + 1>>, <<ind, mm, nd.c[j], 1>> >>
                   /\ used' = IF mm = FLAT /\ Forced(cs, nd.c[j]) THEN used \cup {FlatOverForced(nd.c[j])} ELSE used
                   /\ UNCHANGED <<col, pos>>
  \* (after st' is determined) the flat region and its taint
  /\ LET efb == IF InRegion THEN fbase ELSE -1
         hlFlat == Top[3] # 0 /\ Nd(cs, Top[3]).k = "hl" /\ Top[2] = FLAT
         \* a group / fill item entered FLAT over content whose first forcing node is a hardline (the step that
         \* records HLF): that hardline may then be reached through a choiceless inner group, i.e. in BREAK mode
         newTop == st'[Len(st')]
         enterHl == /\ Top[3] # 0 /\ Nd(cs, Top[3]).k \in {"grp", "fill"}
                    /\ Len(st') > 0 /\ newTop[2] = FLAT /\ newTop[3] # 0
                    /\ Forced(cs, newTop[3]) /\ FirstForced(cs, newTop[3]) = "hl"
     IN /\ fbase' = IF efb # -1 THEN efb
                    ELSE IF Len(st') > 0 /\ st'[Len(st')][2] = FLAT THEN Len(st') - 1 ELSE -1
        /\ taint' = ((fbase' # -1) /\ (Tainted \/ hlFlat \/ enterHl))

Accepting == Len(st) = 0 /\ pos = Len(O) + 1
Next == Step /\ UNCHANGED <<cs, src>>

\* verdict lines, collected by the harness (an id without ACCEPT is rejected)
Report == Accepting => PrintT(<<"ACCEPT", Cases[cs].id, src, used>>)

\* diagnosis mode: longest accepted prefix
Progress == Cases[cs].diag => PrintT(<<"POS", Cases[cs].id, src, pos>>)
=============================================================================
