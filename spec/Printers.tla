------------------------------ MODULE Printers ------------------------------
(***************************************************************************)
(* CONCRETE transcription of the value -> Doc printers for the built-in      *)
(* types, so that the whole pipeline                                         *)
(*      value --Printers--> Doc --LayoutImpl--> SDoc stream --render--> text  *)
(* is a function inside the specification and TLC PREDICTS the exact text     *)
(* pformat returns.  Bound to the code by text equality (DRIFT only): it is   *)
(* the implementation-shaped model, the properties are decided elsewhere      *)
(* (PyTerm, LayoutSpec).                                                      *)
(*                                                                         *)
(*   prettyprinter.py: pretty_python_value (dispatch on the exact type),      *)
(*     pretty_int / pretty_float / pretty_bool / pretty_none / pretty_ellipsis,*)
(*     pretty_str (via LayoutImpl's "pstr" contextual), bracket,              *)
(*     sequence_of_docs, pretty_bracketable_iterable, pretty_frozenset,       *)
(*     pretty_dict, pretty_call_alt / build_fncall, python_to_sdocs.          *)
(*                                                                         *)
(* Domain of the model (anything else yields an "unmodelled" marker and the   *)
(* case is skipped): no comments, no truncation (len <= max_seq_len), str and  *)
(* bytes over printable ASCII and newline (split strings included: the       *)
(* evaluator composes StrSplitFn!Lines with the four multiline strategies).  *)
(*                                                                         *)
(* Value terms are the ones of PyTerm with the repr text of number leaves     *)
(* attached:  <<"int", digits, codes>>  <<"float", repr, codes>>              *)
(***************************************************************************)
EXTENDS LayoutImpl

\* ---- document constructors (doc.py / prettyprinter.py constants)
Txt(codes) == TextT(codes)
Ann(tok, d) == <<"ann", tok, d>>
Cat(ds) == <<"cat", ds>>
Grp(d) == <<"grp", d>>
AB(d) == <<"ab", d>>
Nst(i, d) == <<"nest", i, d>>
LINE == <<"fc", HLT, Txt(<<32>>), 0>>
SOFTLINE == <<"fc", HLT, NILT, 0>>

KEYWORD_CONSTANT == 1
NAME_BUILTIN == 2
NUMBER_FLOAT == 10
NUMBER_INT == 11
PUNCTUATION == 13

P(ch) == Ann(PUNCTUATION, Txt(<<ch>>))
COMMA == P(44)
COLON == P(58)
LPAREN == P(40)
RPAREN == P(41)
LBRACKET == P(91)
RBRACKET == P(93)
LBRACE == P(123)
RBRACE == P(125)
ELLIPSIS == Ann(PUNCTUATION, Txt(<<46, 46, 46>>))

\* builtin_identifier(name)
Builtin(name) == Ann(NAME_BUILTIN, Txt(name))
NameOf(kind) ==
  CASE kind = "int" -> <<105, 110, 116>>
    [] kind = "float" -> <<102, 108, 111, 97, 116>>
    [] kind = "str" -> <<115, 116, 114>>
    [] kind = "bytes" -> <<98, 121, 116, 101, 115>>
    [] kind = "set" -> <<115, 101, 116>>
    [] kind = "frozenset" -> <<102, 114, 111, 122, 101, 110, 115, 101, 116>>

\* ctx = [indent, depth (-1 = unlimited), msl, strat (multiline strategy for a str printed with this ctx)]
Nested(ctx) == [ctx EXCEPT !.depth = IF @ = -1 THEN -1 ELSE @ - 1]
Strat(ctx, st) == [ctx EXCEPT !.strat = st]
DepthZero(ctx) == ctx.depth = 0
DepthLeZero(ctx) == ctx.depth # -1 /\ ctx.depth <= 0

\* bracket(ctx, left, child, right)
Bracket(ctx, left, child, right) == Cat(<<left, Nst(ctx.indent, Cat(<<SOFTLINE, child>>)), SOFTLINE, right>>)

\* sequence_of_docs without comments
RECURSIVE SeqParts(_, _)
SeqParts(docs, i) ==
  IF i > Len(docs) THEN <<>>
  ELSE IF i = Len(docs) THEN <<docs[i]>>
  ELSE <<docs[i], Cat(<<COMMA, LINE>>)>> \o SeqParts(docs, i + 1)

SequenceOfDocs(ctx, left, docs, right, dangle) ==
  LET minLen == 2 + 2 * (Len(docs) - 1) + Len(docs)
      parts == SeqParts(docs, 1) \o (IF dangle THEN <<COMMA>> ELSE <<>>)
      body == Bracket(ctx, left, Cat(parts), right)
  IN IF minLen > 150 THEN AB(body) ELSE Grp(body)

\* build_fncall(ctx, fndoc, argdocs) without keywords / comments
BuildFncall(ctx, fndoc, argdocs, hug) ==
  IF Len(argdocs) = 0 THEN Cat(<<fndoc, LPAREN, RPAREN>>)
  ELSE IF hug /\ Len(argdocs) = 1 THEN Grp(Cat(<<fndoc, LPAREN, argdocs[1], RPAREN>>))
  ELSE LET parts == [i \in 1..Len(argdocs) |->
                       LET part == Cat(<<argdocs[i], IF i = Len(argdocs) THEN NILT ELSE COMMA>>)
                       IN IF i = Len(argdocs) THEN part ELSE Cat(<<part, LINE>>)] \o <<>>
       IN Grp(Cat(<<fndoc, LPAREN, Nst(ctx.indent, Cat(<<SOFTLINE, Cat(parts)>>)), SOFTLINE, RPAREN>>))

\* pretty_call_alt(ctx, constructor, args=(...,)): the depth placeholder  name(...)
Placeholder(kind) == Cat(<<Builtin(NameOf(kind)), LPAREN, ELLIPSIS, RPAREN>>)

IsSimpleStr(codes) == \A i \in 1..Len(codes) : codes[i] \in 32..126 /\ codes[i] \notin {39, 34, 92}

RECURSIVE PV(_, _)
\* (\o <<>> forces TLC's lazy function value into a tuple: otherwise every docs[i] re-runs PV)
PVSeq(vs, ctx) == [i \in 1..Len(vs) |-> PV(vs[i], ctx)] \o <<>>

PV(v, ctx) ==
  CASE v[1] = "int" ->
         IF DepthZero(ctx) THEN Placeholder("int") ELSE Ann(NUMBER_INT, Txt(v[3]))
    [] v[1] = "float" ->
         IF DepthZero(ctx) THEN Placeholder("float")
         ELSE IF v[2] \in {"inf", "-inf", "nan"}
              \* pretty_call_alt(ctx, float, args=('inf',)): a str argument, printed with the nested context
              THEN (IF DepthLeZero(ctx) THEN Placeholder("float")
                    ELSE BuildFncall(ctx, Builtin(NameOf("float")), <<PV(<<"str", v[3]>>, Strat(Nested(ctx), "hang"))>>, FALSE))
              ELSE Ann(NUMBER_FLOAT, Txt(v[3]))
    [] v[1] = "bool" -> Ann(KEYWORD_CONSTANT, Txt(IF v[2] = 1 THEN <<84, 114, 117, 101>> ELSE <<70, 97, 108, 115, 101>>))
    [] v[1] = "none" -> Ann(KEYWORD_CONSTANT, Txt(<<78, 111, 110, 101>>))
    [] v[1] = "ellipsis" -> ELLIPSIS
    [] v[1] \in {"str", "bytes"} ->
         IF DepthZero(ctx) THEN Placeholder(v[1])
         ELSE <<"pstr", v[2], v[1] = "bytes", ctx.strat, ctx.indent>>
    [] v[1] \in {"list", "tuple", "set"} ->
         LET left == CASE v[1] = "list" -> LBRACKET [] v[1] = "tuple" -> LPAREN [] OTHER -> LBRACE
             right == CASE v[1] = "list" -> RBRACKET [] v[1] = "tuple" -> RPAREN [] OTHER -> RBRACE
         IN IF Len(v[2]) > ctx.msl THEN <<"unmodelled">>
            ELSE IF Len(v[2]) = 0
                 THEN (IF v[1] = "set"
                       THEN (IF DepthLeZero(ctx) THEN Placeholder("set")
                             ELSE Cat(<<Builtin(NameOf("set")), LPAREN, RPAREN>>))
                       ELSE Cat(<<left, right>>))
            ELSE IF DepthZero(ctx)
                 THEN (IF v[1] = "set" THEN Placeholder("set") ELSE Cat(<<left, ELLIPSIS, right>>))
            ELSE SequenceOfDocs(ctx, left, PVSeq(v[2], Strat(Nested(ctx), IF Len(v[2]) = 1 THEN "plain" ELSE "hang")),
                                right, v[1] = "tuple" /\ Len(v[2]) = 1)
    [] v[1] = "frozenset" ->
         IF DepthLeZero(ctx) THEN Placeholder("frozenset")
         ELSE IF Len(v[2]) = 0 THEN Cat(<<Builtin(NameOf("frozenset")), LPAREN, RPAREN>>)
         \* the sole list argument is hugged and printed with the SAME context
         ELSE BuildFncall(ctx, Builtin(NameOf("frozenset")), <<PV(<<"list", v[2]>>, ctx)>>, TRUE)
    [] v[1] = "dict" ->
         IF DepthZero(ctx) THEN Cat(<<LBRACE, ELLIPSIS, RBRACE>>)
         ELSE IF Len(v[2]) > ctx.msl THEN <<"unmodelled">>
         ELSE LET n == Len(v[2])
                  parts == [i \in 1..n |->
                              LET k == v[2][i][1]
                                  \* str/bytes keys are printed with the dict's own context
                                  kdoc == IF k[1] \in {"str", "bytes"} THEN PV(k, Strat(ctx, "parens")) ELSE PV(k, Nested(ctx))
                                  vdoc == PV(v[2][i][2], Strat(Nested(ctx), "indented"))
                              IN Cat(<<kdoc, Cat(<<COLON, Txt(<<32>>)>>), vdoc,
                                       IF i = n THEN NILT ELSE COMMA, IF i = n THEN NILT ELSE LINE>>)] \o <<>>
                  doc == Bracket(ctx, LBRACE, Cat(parts), RBRACE)
              IN IF n > 2 THEN AB(doc) ELSE Grp(doc)
    [] OTHER -> <<"unmodelled">>

\* a str dict key at depth 0 of the dict's context would print str(...): pretty_str checks
\* ctx.depth_left == 0 on the dict's context, which is > 0 whenever the dict itself is printed.

-----------------------------------------------------------------------------
\* python_to_sdocs + default_render_to_stream: the text pformat returns
RECURSIVE LastTextIx(_, _, _)
LastTextIx(out, p, best) ==
  IF p > Len(out) THEN best
  ELSE IF out[p].k = "nl" THEN best
  ELSE LastTextIx(out, p + 1, IF out[p].k = "t" THEN p ELSE best)
RECURSIVE RStripC(_)
RStripC(s) == IF Len(s) > 0 /\ s[Len(s)] \in {32, 9, 10, 11, 12, 13} THEN RStripC(SubSeq(s, 1, Len(s) - 1)) ELSE s
RECURSIVE RenderOut(_, _, _, _)
RenderOut(out, p, lastIx, acc) ==
  IF p > Len(out) THEN acc
  ELSE IF out[p].k = "t" THEN RenderOut(out, p + 1, lastIx, acc \o (IF p = lastIx THEN RStripC(out[p].s) ELSE out[p].s))
  ELSE IF out[p].k = "nl"
       THEN RenderOut(out, p + 1, LastTextIx(out, p + 1, 0), (acc \o <<10>>) \o [i \in 1..out[p].n |-> 32])
  ELSE RenderOut(out, p + 1, lastIx, acc)

Unmodelled(out) == \E p \in 1..Len(out) : out[p].k = "unmodelled"

\* pformat(value, indent, width, depth, ribbon_width, max_seq_len): <<modelled?, text>>
Pformat(v, indent, width, depth, ribbon, msl) ==
  LET doc == PV(v, [indent |-> indent, depth |-> depth, msl |-> msl, strat |-> "plain"])
      R == IF ribbon < width THEN ribbon ELSE width
      out == RunI(TRUE, width, R, InitI(doc))
  IN IF Unmodelled(out) THEN <<FALSE, <<>>>> ELSE <<TRUE, RenderOut(out, 1, LastTextIx(out, 1, 0), <<>>)>>
=============================================================================
