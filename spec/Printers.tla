------------------------------ MODULE Printers ------------------------------
(***************************************************************************)
(* CONCRETE transcription of the value -> Doc printers for the built-in      *)
(* types, so that the whole pipeline                                         *)
(*      value --Printers--> Doc --LayoutImpl--> SDoc stream --render--> text  *)
(* is a function inside the specification and TLC PREDICTS the exact text     *)
(* pformat returns.  Bound to the code by text equality (DRIFT only): it is   *)
(* the implementation-shaped model, the properties are decided elsewhere      *)
(* (PyTerm, LayoutSpec).                                                      *)
(*                                                                         *)
(*   prettyprinter.py: pretty_python_value (dispatch on the exact type),      *)
(*     pretty_int / pretty_float / pretty_bool / pretty_none / pretty_ellipsis,*)
(*     pretty_str (via LayoutImpl's "pstr" contextual), bracket,              *)
(*     sequence_of_docs, pretty_bracketable_iterable, pretty_frozenset,       *)
(*     pretty_dict, pretty_call_alt / build_fncall, python_to_sdocs.          *)
(*                                                                         *)
(* Domain of the model (anything else yields an "unmodelled" marker and the   *)
(* case is skipped): str and bytes over printable ASCII and newline (split    *)
(* strings included: the evaluator composes StrSplitFn!Lines with the four    *)
(* multiline strategies); comment() / trailing_comment() wrappers with texts   *)
(* over printable ASCII, tab and newline (commentdoc, the comment placement of *)
(* sequence_of_docs / pretty_dict / build_fncall / python_to_sdocs, the lazy    *)
(* plain re-rendering of commented dict values); truncation by max_seq_len     *)
(* with its '...and N more elements' comment; user types printed through       *)
(* pretty_call (<<"call", name, args, kwargs>>).                               *)
(*                                                                         *)
(* Value terms are the ones of PyTerm with the repr text of number leaves     *)
(* attached:  <<"int", digits, codes>>  <<"float", repr, codes>>              *)
(***************************************************************************)
EXTENDS LayoutImpl

\* ---- document constructors (doc.py / prettyprinter.py constants)
Txt(codes) == TextT(codes)
Ann(tok, d) == <<"ann", tok, d>>
Cat(ds) == <<"cat", ds>>
Grp(d) == <<"grp", d>>
AB(d) == <<"ab", d>>
Nst(i, d) == <<"nest", i, d>>
LINE == <<"fc", HLT, Txt(<<32>>), 0>>
SOFTLINE == <<"fc", HLT, NILT, 0>>

KEYWORD_CONSTANT == 1
NAME_BUILTIN == 2
NUMBER_FLOAT == 10
NUMBER_INT == 11
PUNCTUATION == 13

P(ch) == Ann(PUNCTUATION, Txt(<<ch>>))
COMMA == P(44)
COLON == P(58)
LPAREN == P(40)
RPAREN == P(41)
LBRACKET == P(91)
RBRACKET == P(93)
LBRACE == P(123)
RBRACE == P(125)
ELLIPSIS == Ann(PUNCTUATION, Txt(<<46, 46, 46>>))

\* builtin_identifier(name)
Builtin(name) == Ann(NAME_BUILTIN, Txt(name))
NameOf(kind) ==
  CASE kind = "int" -> <<105, 110, 116>>
    [] kind = "float" -> <<102, 108, 111, 97, 116>>
    [] kind = "str" -> <<115, 116, 114>>
    [] kind = "bytes" -> <<98, 121, 116, 101, 115>>
    [] kind = "set" -> <<115, 101, 116>>
    [] kind = "frozenset" -> <<102, 114, 111, 122, 101, 110, 115, 101, 116>>

\* ctx = [indent, depth (-1 = unlimited), msl, strat (multiline strategy for a str printed with this ctx)]
Nested(ctx) == [ctx EXCEPT !.depth = IF @ = -1 THEN -1 ELSE @ - 1]
Strat(ctx, st) == [ctx EXCEPT !.strat = st]
DepthZero(ctx) == ctx.depth = 0
DepthLeZero(ctx) == ctx.depth # -1 /\ ctx.depth <= 0

\* bracket(ctx, left, child, right)
Bracket(ctx, left, child, right) == Cat(<<left, Nst(ctx.indent, Cat(<<SOFTLINE, child>>)), SOFTLINE, right>>)

-----------------------------------------------------------------------------
\* ---- comments: comment(value, text) = <<"cm", text, v>>, trailing_comment(value, text) = <<"tcm", text, v>>
COMMENT_SINGLE == 20
NAME_FUNCTION == 3
NAME_VARIABLE == 4
OPERATOR == 12
ASSIGN_OP == Ann(OPERATOR, Txt(<<61>>))
FC(broken, flat) == <<"fc", broken, flat, 0>>
CAnn(text, d) == <<"cann", text, d>>
IsCommented(d) == d[1] = "cann"
TwoSpaces == Txt(<<32, 32>>)

\* comment texts inside the model: printable ASCII, space, tab, newline (str.splitlines / \s split on more)
ModelledText(codes) == \A i \in 1..Len(codes) : codes[i] \in 32..126 \cup {9, 10}
IsCWs(c) == c \in {32, 9}

\* text.splitlines() for texts whose only line separator is \n
RECURSIVE SplitNl(_, _, _)
SplitNl(codes, i, cur) ==
  IF i > Len(codes) THEN (IF Len(cur) = 0 THEN <<>> ELSE <<cur>>)
  ELSE IF codes[i] = 10 THEN <<cur>> \o SplitNl(codes, i + 1, <<>>)
  ELSE SplitNl(codes, i + 1, Append(cur, codes[i]))

\* list(filter(None, WHITESPACE_PATTERN_TEXT.split(line))): the maximal runs of whitespace / non-whitespace
RECURSIVE Runs(_, _, _)
Runs(line, i, cur) ==
  IF i > Len(line) THEN (IF Len(cur) = 0 THEN <<>> ELSE <<cur>>)
  ELSE IF Len(cur) = 0 \/ IsCWs(cur[1]) = IsCWs(line[i]) THEN Runs(line, i + 1, Append(cur, line[i]))
  ELSE <<cur>> \o Runs(line, i + 1, <<line[i]>>)

HashSpace == Txt(<<35, 32>>)
\* one line of commentdoc(text)
CommentLine(line) ==
  LET rs == Runs(line, 1, <<>>)
  IN IF Len(rs) = 0 THEN Txt(<<35>>)
     ELSE LET sw == IsCWs(rs[1][1])
              prefix == IF sw THEN Txt(rs[1]) ELSE NILT
              t1 == IF sw THEN Tail(rs) ELSE rs
              t2 == IF Len(t1) % 2 = 0 THEN SubSeq(t1, 1, Len(t1) - 1) ELSE t1
              items == [i \in 1..Len(t2) |->
                          IF i % 2 = 0 THEN FC(AB(Cat(<<HLT, HashSpace>>)), Txt(t2[i])) ELSE Txt(t2[i])] \o <<>>
          IN Cat(<<HashSpace, prefix, <<"fill", items>>>>)

\* commentdoc(text), text non-empty
CommentDoc(text) ==
  LET ls == SplitNl(text, 1, <<>>)
      cls == [i \in 1..Len(ls) |-> CommentLine(ls[i])] \o <<>>
      body == Cat(Intersperse(HLT, cls, 1))
  IN IF ~ModelledText(text) THEN <<"unmodelled">>
     ELSE Ann(COMMENT_SINGLE, IF Len(ls) > 1 THEN AB(body) ELSE body)

\* unwrap_comments: <<value, comment, trailing_comment>>; <<-1>> = None. The loop assigns outermost first, so the
\* INNERMOST wrapper of each kind wins.
NONE == <<-1>>
RECURSIVE Unwrap(_)
Unwrap(v) ==
  IF v[1] = "cm" THEN LET r == Unwrap(v[3]) IN <<r[1], IF r[2] = NONE THEN v[2] ELSE r[2], r[3]>>
  ELSE IF v[1] = "tcm" THEN LET r == Unwrap(v[3]) IN <<r[1], r[2], IF r[3] = NONE THEN v[2] ELSE r[3]>>
  ELSE <<v, NONE, NONE>>
\* `if comment:` / `if trailing_comment:` - None and '' are both falsy
Truthy(c) == c # NONE /\ Len(c) > 0

RECURSIVE FlatSeq(_, _)
FlatSeq(ss, i) == IF i > Len(ss) THEN <<>> ELSE ss[i] \o FlatSeq(ss, i + 1)

\* sequence_of_docs(ctx, left, docs, right, dangle, force_break)
SequenceOfDocs(ctx, left, docs, right, dangle, force) ==
  LET n == Len(docs)
      minLen == 2 + 2 * (n - 1) + n
      willBreak == force \/ minLen > 150
      hasComment == \E i \in 1..n : IsCommented(docs[i])
      part(i) ==
        LET last == i = n
            d == docs[i]
        IN IF IsCommented(d)
           THEN LET needsComma == ~last \/ dangle
                    comma == IF needsComma THEN COMMA ELSE NILT
                    flatV == Cat(<<d, comma, TwoSpaces, CommentDoc(d[2]), IF last THEN NILT ELSE HLT>>)
                    brokV == Cat(<<CommentDoc(d[2]), HLT, d, comma, IF last THEN NILT ELSE HLT>>)
                IN <<Grp(FC(brokV, flatV))>>
           ELSE IF last THEN <<d>> ELSE <<d, Cat(<<COMMA, LINE>>)>>
      parts == [i \in 1..n |-> part(i)] \o <<>>
      flatParts == FlatSeq(parts, 1)
      parts2 == IF dangle /\ ~(n > 0 /\ IsCommented(docs[n])) THEN Append(flatParts, COMMA) ELSE flatParts
      body == Bracket(ctx, left, Cat(parts2), right)
  IN IF willBreak \/ hasComment THEN AB(body) ELSE Grp(body)

\* build_fncall(ctx, fndoc, argdocs, kwargdocs, hug_sole_arg, trailing_comment); kwargdocs = << <<name, doc>>, ... >>
BuildFncall(ctx, fndoc, argdocs, kwargdocs, hug, tc) ==
  LET kwd == [i \in 1..Len(kwargdocs) |->
                LET nm == Ann(NAME_VARIABLE, Txt(kwargdocs[i][1]))
                    d == kwargdocs[i][2]
                IN IF IsCommented(d) THEN CAnn(d[2], Cat(<<nm, ASSIGN_OP, d[3]>>))
                   ELSE Cat(<<nm, ASSIGN_OP, d>>)] \o <<>>
      hasTc == Truthy(tc)
  IN IF Len(argdocs) = 0 /\ Len(kwd) = 0 /\ ~hasTc THEN Cat(<<fndoc, LPAREN, RPAREN>>)
     ELSE IF hug /\ Len(kwd) = 0 /\ Len(argdocs) = 1 /\ ~IsCommented(argdocs[1])
          THEN Grp(Cat(<<fndoc, LPAREN, argdocs[1], RPAREN>>))
     ELSE LET all == (argdocs \o kwd) \o (IF hasTc THEN <<CommentDoc(tc)>> ELSE <<>>)
              n == Len(all)
              \* has_comment as it stands after the loop has looked at element i
              hc(i) == hasTc \/ \E j \in 1..i : IsCommented(all[j])
              parts == [i \in 1..n |->
                          LET last == i = n
                              cm == IsCommented(all[i])
                              doc == IF cm THEN all[i][3] ELSE all[i]
                              p0 == Cat(<<doc, IF last THEN NILT ELSE COMMA>>)
                              p1 == IF cm THEN Grp(FC(Cat(<<CommentDoc(all[i][2]), HLT, p0>>),
                                                       Cat(<<p0, TwoSpaces, CommentDoc(all[i][2])>>)))
                                    ELSE p0
                          IN IF last THEN p1 ELSE Cat(<<p1, IF hc(i) THEN HLT ELSE LINE>>)] \o <<>>
              body == Cat(<<fndoc, LPAREN, Nst(ctx.indent, Cat(<<SOFTLINE, Cat(parts)>>)), SOFTLINE, RPAREN>>)
          IN IF hc(n) THEN AB(body) ELSE Grp(body)

\* pretty_call_alt(ctx, constructor, args=(...,)): the depth placeholder  name(...)
PlaceholderFn(fndoc) == Cat(<<fndoc, LPAREN, ELLIPSIS, RPAREN>>)
Placeholder(kind) == PlaceholderFn(Builtin(NameOf(kind)))

IsSimpleStr(codes) == \A i \in 1..Len(codes) : codes[i] \in 32..126 /\ codes[i] \notin {39, 34, 92}

RECURSIVE ToDigits(_)
ToDigits(n) == IF n < 10 THEN <<48 + n>> ELSE Append(ToDigits(n \div 10), 48 + (n % 10))
\* '...and {} more elements'
TruncText(k) == (<<46, 46, 46, 97, 110, 100, 32>> \o ToDigits(k)) \o
                <<32, 109, 111, 114, 101, 32, 101, 108, 101, 109, 101, 110, 116, 115>>
WithTrunc(n, msl, tc) ==
  IF n > msl THEN TruncText(n - msl) \o (IF Truthy(tc) THEN <<46, 32>> \o tc ELSE <<>>)
  ELSE tc
TakeN(k, s) == IF Len(s) <= k THEN s ELSE SubSeq(s, 1, k)

RECURSIVE PVC(_, _), PVT(_, _, _), CallAlt(_, _, _, _), PContainer(_, _, _, _), PStd(_, _)
\* (\o <<>> forces TLC's lazy function value into a tuple: otherwise every docs[i] re-runs PV)
PVSeq(vs, ctx) == [i \in 1..Len(vs) |-> PVC(vs[i], ctx)] \o <<>>

\* pretty_python_value: unwrap comments, dispatch (with the trailing comment when the printer takes one),
\* re-attach the value comment
PVC(v, ctx) ==
  LET u == Unwrap(v)
      doc == PVT(u[1], ctx, IF Truthy(u[3]) THEN u[3] ELSE NONE)
  IN IF doc[1] = "unmodelled" THEN doc
     ELSE IF Truthy(u[2]) THEN (IF ModelledText(u[2]) THEN CAnn(u[2], doc) ELSE <<"unmodelled">>) ELSE doc

\* pretty_call_alt(ctx, fn, args, kwargs) for a function document fndoc; kwargs = << <<name, value>>, ... >>
CallAlt(ctx, fndoc, args, kwargs) ==
  IF DepthLeZero(ctx) THEN PlaceholderFn(fndoc)
  ELSE IF Len(kwargs) = 0 /\ Len(args) = 1 /\ Unwrap(args[1])[1][1] \in {"list", "dict", "tuple"}
       THEN BuildFncall(ctx, fndoc, <<PVC(args[1], ctx)>>, <<>>, TRUE, NONE)
  ELSE LET nctx == Strat(Nested(ctx), "hang")
       IN BuildFncall(ctx, fndoc, PVSeq(args, nctx),
                      [i \in 1..Len(kwargs) |-> <<kwargs[i][1], PVC(kwargs[i][2], nctx)>>] \o <<>>, FALSE, NONE)

\* pretty_bracketable_iterable / pretty_frozenset / pretty_dict; fn = NONE for the exact built-in type, the
\* constructor's identifier document for an instance of a subclass
PContainer(v, ctx, tc, fn) ==
  LET native == fn = NONE
      wrapHug(lit) == IF native THEN lit ELSE BuildFncall(ctx, fn, <<lit>>, <<>>, TRUE, NONE)
      ctor(kind) == IF native THEN Builtin(NameOf(kind)) ELSE fn
  IN
  CASE v[1] \in {"list", "tuple", "set"} ->
         LET left == CASE v[1] = "list" -> LBRACKET [] v[1] = "tuple" -> LPAREN [] OTHER -> LBRACE
             right == CASE v[1] = "list" -> RBRACKET [] v[1] = "tuple" -> RPAREN [] OTHER -> RBRACE
             n == Len(v[2])
             tcm == WithTrunc(n, ctx.msl, tc)
             hasTc == Truthy(tcm)
         IN IF hasTc /\ ~ModelledText(tcm) THEN <<"unmodelled">>
            ELSE IF n = 0 /\ v[1] # "set" /\ ~hasTc
                 THEN (IF native THEN Cat(<<left, right>>) ELSE CallAlt(ctx, fn, <<>>, <<>>))
            ELSE IF n = 0 /\ v[1] = "set"
                 THEN (IF ~hasTc THEN CallAlt(ctx, ctor("set"), <<>>, <<>>)
                       ELSE BuildFncall(ctx, ctor("set"), <<>>, <<>>, FALSE, tcm))
            ELSE IF DepthZero(ctx)
                 THEN (IF v[1] = "set" THEN PlaceholderFn(ctor("set")) ELSE wrapHug(Cat(<<left, ELLIPSIS, right>>)))
            ELSE LET els == IF n = 1 THEN <<PVC(v[2][1], Strat(Nested(ctx), "plain"))>>
                            ELSE PVSeq(TakeN(ctx.msl, v[2]), Strat(Nested(ctx), "hang"))
                     els2 == IF hasTc THEN Append(els, CommentDoc(tcm)) ELSE els
                 IN wrapHug(SequenceOfDocs(ctx, left, els2, right, v[1] = "tuple" /\ n = 1 /\ ~hasTc, hasTc))
    [] v[1] = "frozenset" ->
         \* pretty_frozenset takes no trailing_comment; list(value) is the sole (hugged) argument, same context
         IF Len(v[2]) = 0 THEN CallAlt(ctx, ctor("frozenset"), <<>>, <<>>)
         ELSE CallAlt(ctx, ctor("frozenset"), << <<"list", v[2]>> >>, <<>>)
    [] v[1] = "dict" ->
         IF DepthZero(ctx) THEN wrapHug(Cat(<<LBRACE, ELLIPSIS, RBRACE>>))
         ELSE LET all == v[2]
                  tcm == WithTrunc(Len(all), ctx.msl, tc)
                  hasTc == Truthy(tcm)
                  prs == TakeN(ctx.msl, all)
                  n == Len(prs)
                  kd(i) == LET k == prs[i][1] IN
                           \* str/bytes keys are printed with the dict's own context
                           \* (isinstance(k, (str, bytes)): instances of str / bytes subclasses too)
                           IF k[1] \in {"str", "bytes"} \/ (k[1] = "sub" /\ k[3][1] \in {"str", "bytes"})
                           THEN PVT(k, Strat(ctx, "parens"), NONE) ELSE PVC(k, Nested(ctx))
                  vd(i) == PVC(prs[i][2], Strat(Nested(ctx), "indented"))
                  kds == [i \in 1..n |-> kd(i)] \o <<>>
                  vds == [i \in 1..n |-> vd(i)] \o <<>>
                  hasComment == hasTc \/ \E i \in 1..n : IsCommented(kds[i]) \/ IsCommented(vds[i])
                  part(i) ==
                    LET last == i = n
                        kc == IsCommented(kds[i])
                        vc == IsCommented(vds[i])
                        kdoc == IF kc THEN kds[i][3] ELSE kds[i]
                        vdoc == IF vc THEN vds[i][3] ELSE vds[i]
                        comma == IF last THEN NILT ELSE COMMA
                    IN IF ~kc /\ ~vc
                       THEN Cat(<<kdoc, Cat(<<COLON, Txt(<<32>>)>>), vdoc, comma, IF last THEN NILT ELSE LINE>>)
                       ELSE LET kcommented == IF kc THEN Cat(<<CommentDoc(kds[i][2]), HLT, kdoc>>) ELSE kdoc
                                vcommented ==
                                  IF vc
                                  THEN Grp(FC(
                                         \* broken: the comment on its own line above the value, which is rendered
                                         \* again (lazily) with the plain multi-line strategy
                                         Cat(<<Nst(ctx.indent,
                                                   Cat(<<HLT, CommentDoc(vds[i][2]), HLT,
                                                         <<"lazy", PVC(prs[i][2], Strat(Nested(ctx), "plain"))>>, comma>>)),
                                               IF last THEN NILT ELSE HLT>>),
                                         Cat(<<vdoc, comma, TwoSpaces, CommentDoc(vds[i][2]), IF last THEN NILT ELSE HLT>>)))
                                  ELSE Cat(<<vdoc, comma, IF last THEN NILT ELSE LINE>>)
                            IN Cat(<<kcommented, Cat(<<COLON, Txt(<<32>>)>>), vcommented>>)
                  parts == [i \in 1..n |-> part(i)] \o <<>>
                  parts2 == IF hasTc THEN Append(parts, Cat(<<HLT, CommentDoc(tcm)>>)) ELSE parts
                  doc0 == Bracket(ctx, LBRACE, Cat(parts2), RBRACE)
                  doc == IF n > 2 \/ hasComment THEN AB(doc0) ELSE Grp(doc0)
              IN IF hasTc /\ ~ModelledText(tcm) THEN <<"unmodelled">>
                 ELSE IF native THEN doc
                 ELSE IF Len(parts2) = 0 THEN CallAlt(ctx, fn, <<>>, <<>>)
                 ELSE BuildFncall(ctx, fn, <<doc>>, <<>>, TRUE, NONE)

\* pretty_stdlib.py (and pretty_namedtuple / pretty_simplenamespace): the container printers of the standard library,
\* each a pretty_call_alt of the type's qualified name.  v = <<"std", kind, printed name, a, b>>
\*   OrderedDict  a = pairs                       -> Name([(k, v), ...])
\*   deque        a = items, b = <<>> | <<maxlen>> -> Name([...], maxlen=n)
\*   Counter      a = pairs in most_common() order -> Name({...});   mappingproxy likewise
\*   defaultdict  a = pairs, b = factory term      -> Name(factory, {...})
\*   ChainMap     a = the maps (dict terms)        -> Name(map, ...) or Name() when there is nothing in it
\*   exception    a = exc.args                     -> Name(arg, ...)
\*   namedtuple   a = << <<field, value>>, ... >>  -> Name(field=value, ...);  SimpleNamespace: attributes sorted by name
MaxlenName == <<109, 97, 120, 108, 101, 110>>
PStd(v, ctx) ==
  LET fn == Ann(NAME_FUNCTION, Txt(v[3]))
      kind == v[2]
  IN CASE kind = "OrderedDict" ->
            CallAlt(ctx, fn, << <<"list", [i \in 1..Len(v[4]) |-> <<"tuple", v[4][i]>>] \o <<>> >> >>, <<>>)
       [] kind = "deque" ->
            CallAlt(ctx, fn, << <<"list", v[4]>> >>, IF Len(v[5]) = 0 THEN <<>> ELSE << <<MaxlenName, v[5][1]>> >>)
       [] kind \in {"Counter", "mappingproxy"} -> CallAlt(ctx, fn, << <<"dict", v[4]>> >>, <<>>)
       [] kind = "defaultdict" -> CallAlt(ctx, fn, <<v[5], <<"dict", v[4]>>>>, <<>>)
       [] kind = "ChainMap" ->
            IF Len(v[4]) = 0 \/ (Len(v[4]) = 1 /\ Len(v[4][1][2]) = 0) THEN CallAlt(ctx, fn, <<>>, <<>>)
            ELSE CallAlt(ctx, fn, v[4], <<>>)
       [] kind = "exception" -> CallAlt(ctx, fn, v[4], <<>>)
       [] kind \in {"namedtuple", "SimpleNamespace"} -> CallAlt(ctx, fn, <<>>, v[4])
       [] OTHER -> <<"unmodelled">>

\* the printers; tc = trailing comment (NONE or non-empty text); printers that do not take one drop it (with a warning)
PVT(v, ctx, tc) ==
  CASE v[1] = "int" ->
         IF DepthZero(ctx) THEN Placeholder("int") ELSE Ann(NUMBER_INT, Txt(v[3]))
    [] v[1] = "float" ->
         IF DepthZero(ctx) THEN Placeholder("float")
         ELSE IF v[2] \in {"inf", "-inf", "nan"}
              \* pretty_call_alt(ctx, float, args=('inf',)): a str argument, printed with the nested context
              THEN CallAlt(ctx, Builtin(NameOf("float")), << <<"str", v[3]>> >>, <<>>)
              ELSE Ann(NUMBER_FLOAT, Txt(v[3]))
    [] v[1] = "bool" -> Ann(KEYWORD_CONSTANT, Txt(IF v[2] = 1 THEN <<84, 114, 117, 101>> ELSE <<70, 97, 108, 115, 101>>))
    [] v[1] = "none" -> Ann(KEYWORD_CONSTANT, Txt(<<78, 111, 110, 101>>))
    [] v[1] = "ellipsis" -> ELLIPSIS
    [] v[1] \in {"str", "bytes"} ->
         IF DepthZero(ctx) THEN Placeholder(v[1])
         ELSE <<"pstr", v[2], v[1] = "bytes", ctx.strat, ctx.indent, <<>>>>
    [] v[1] \in {"list", "tuple", "set", "frozenset", "dict"} -> PContainer(v, ctx, tc, NONE)
    \* an instance of a user subclass of a built-in type: <<"sub", printed constructor name, base value>>
    [] v[1] = "sub" ->
         LET fn == Ann(NAME_FUNCTION, Txt(v[2]))
             b == v[3]
         IN CASE b[1] = "int" ->
                   IF DepthZero(ctx) THEN PlaceholderFn(fn)
                   ELSE BuildFncall(ctx, fn, <<Ann(NUMBER_INT, Txt(b[3]))>>, <<>>, FALSE, NONE)
              [] b[1] = "float" ->
                   IF DepthZero(ctx) THEN PlaceholderFn(fn)
                   ELSE IF b[2] \in {"inf", "-inf", "nan"} THEN CallAlt(ctx, fn, << <<"str", b[3]>> >>, <<>>)
                   ELSE BuildFncall(ctx, fn, <<Ann(NUMBER_FLOAT, Txt(b[3]))>>, <<>>, FALSE, NONE)
              [] b[1] \in {"str", "bytes"} ->
                   IF DepthZero(ctx) THEN PlaceholderFn(fn)
                   ELSE <<"pstr", b[2], b[1] = "bytes", ctx.strat, ctx.indent, v[2]>>
              [] b[1] \in {"list", "tuple", "set", "frozenset", "dict"} -> PContainer(b, ctx, tc, fn)
              [] OTHER -> <<"unmodelled">>
    \* a user type whose printer is  pretty_call(ctx, <name>, *args, **kwargs):  <<"call", name, args, kwargs>>
    [] v[1] = "call" -> CallAlt(ctx, Ann(NAME_FUNCTION, Txt(v[2])), v[3], v[4])
    [] v[1] = "std" -> PStd(v, ctx)
    [] OTHER -> <<"unmodelled">>

\* a str dict key at depth 0 of the dict's context would print str(...): pretty_str checks
\* ctx.depth_left == 0 on the dict's context, which is > 0 whenever the dict itself is printed.

-----------------------------------------------------------------------------
\* python_to_sdocs + default_render_to_stream: the text pformat returns
RECURSIVE LastTextIx(_, _, _)
LastTextIx(out, p, best) ==
  IF p > Len(out) THEN best
  ELSE IF out[p].k = "nl" THEN best
  ELSE LastTextIx(out, p + 1, IF out[p].k = "t" THEN p ELSE best)
RECURSIVE RStripC(_)
RStripC(s) == IF Len(s) > 0 /\ s[Len(s)] \in {32, 9, 10, 11, 12, 13} THEN RStripC(SubSeq(s, 1, Len(s) - 1)) ELSE s
RECURSIVE RenderOut(_, _, _, _)
RenderOut(out, p, lastIx, acc) ==
  IF p > Len(out) THEN acc
  ELSE IF out[p].k = "t" THEN RenderOut(out, p + 1, lastIx, acc \o (IF p = lastIx THEN RStripC(out[p].s) ELSE out[p].s))
  ELSE IF out[p].k = "nl"
       THEN RenderOut(out, p + 1, LastTextIx(out, p + 1, 0), (acc \o <<10>>) \o [i \in 1..out[p].n |-> 32])
  ELSE RenderOut(out, p + 1, lastIx, acc)

Unmodelled(out) == \E p \in 1..Len(out) : out[p].k = "unmodelled"

\* pformat(value, indent, width, depth, ribbon_width, max_seq_len): <<modelled?, text>>
Pformat(v, indent, width, depth, ribbon, msl) ==
  LET doc0 == PVC(v, [indent |-> indent, depth |-> depth, msl |-> msl, strat |-> "plain"])
      \* python_to_sdocs: a comment on the top-level value
      doc == IF IsCommented(doc0)
             THEN Grp(FC(Cat(<<CommentDoc(doc0[2]), HLT, doc0>>), Cat(<<doc0, TwoSpaces, CommentDoc(doc0[2])>>)))
             ELSE doc0
      R == IF ribbon < width THEN ribbon ELSE width
      out == RunI(TRUE, width, R, InitI(doc))
  IN IF Unmodelled(out) THEN <<FALSE, <<>>>> ELSE <<TRUE, RenderOut(out, 1, LastTextIx(out, 1, 0), <<>>)>>
=============================================================================
