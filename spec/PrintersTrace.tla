---------------------------- MODULE PrintersTrace ----------------------------
(* Binding of Printers.tla (+ LayoutImpl) to the real pformat: for every case *)
(*   [id, val, indent, width, depth, ribbon, msl, text]                        *)
(* TLC computes the predicted text; MODEL = equal, SKIP = outside the model's   *)
(* domain, otherwise the harness reports DRIFT.                                 *)
EXTENDS Printers, TLC, Json, IOUtils

Cases == ndJsonDeserialize(IOEnv.CASES)
VARIABLE cs
Init == cs \in 1..Len(Cases)
Next == FALSE /\ UNCHANGED cs

\* Constant-level table of predictions: TLC caches LET / argument values only for
\* constant-level expressions; evaluated under a state the recursive operators
\* would be re-evaluated at every reference (exponential in the nesting depth).
Pred == [i \in 1..Len(Cases) |->
           Pformat(Cases[i].val, Cases[i].indent, Cases[i].width, Cases[i].depth, Cases[i].ribbon, Cases[i].msl)]

Report ==
  /\ (~Pred[cs][1]) => PrintT(<<"SKIP", Cases[cs].id>>)
  /\ (Pred[cs][1] /\ Pred[cs][2] = Cases[cs].text) => PrintT(<<"MODEL", Cases[cs].id>>)
=============================================================================
