----------------------------- MODULE CommentMC -----------------------------
(* Design-level check of the comment clauses of C09 on the concrete pipeline   *)
(* model (Printers + LayoutImpl): TLC itself enumerates every comment text over *)
(* a small alphabet (two letters, space, tab, newline) up to MaxLen characters, *)
(* every width in Widths and every placement of the comment, computes the text  *)
(* pformat would return, and checks                                             *)
(*   Preserved : the letters of the comment text appear in the output, in order, *)
(*               exactly once;                                                  *)
(*   Inside    : on every output line a letter of the comment is preceded by '#';*)
(*   Inert     : with the comments (from '#' to the end of the line) and all     *)
(*               whitespace removed, the output equals the output for the       *)
(*               uncommented value with its whitespace removed.                 *)
(* The values contain no letters a / b and no '#', so every such character in    *)
(* the output comes from the comment.                                           *)
EXTENDS Printers, TLC, FiniteSets, SequencesExt

CONSTANTS MaxLen, Widths,
          Canary      \* TRUE: the first '#' of every output is deleted - the check must then report BAD

Alphabet == {97, 98, 32, 9, 10}
Texts == UNION {[1..n -> Alphabet] : n \in 1..MaxLen}
Places == {"top", "list-item", "list-first-of-two", "tuple-sole", "dict-value", "dict-key", "trailing-list",
           "trailing-dict", "call-arg", "both"}

Seven == <<"int", "7", <<55>>>>
Eight == <<"int", "8", <<56>>>>
KeyK == <<"str", <<107>>>>

\* the commented value and its uncommented twin
Commented(pl, t) ==
  CASE pl = "top" -> <<"cm", t, Seven>>
    [] pl = "list-item" -> <<"list", <<Eight, <<"cm", t, Seven>>>>>>
    [] pl = "list-first-of-two" -> <<"list", <<<<"cm", t, Seven>>, Eight>>>>
    [] pl = "tuple-sole" -> <<"tuple", <<<<"cm", t, Seven>>>>>>
    [] pl = "dict-value" -> <<"dict", <<<<KeyK, <<"cm", t, <<"list", <<Seven, Eight>>>>>>>>, <<Eight, Seven>>>>>>
    [] pl = "dict-key" -> <<"dict", <<<<<<"cm", t, Seven>>, Eight>>>>>>
    [] pl = "trailing-list" -> <<"tcm", t, <<"list", <<Seven, Eight>>>>>>
    [] pl = "trailing-dict" -> <<"tcm", t, <<"dict", <<<<Seven, Eight>>>>>>>>
    [] pl = "call-arg" -> <<"call", <<70>>, <<<<"cm", t, Seven>>, Eight>>, <<<<<<107>>, <<"cm", t, Eight>>>>>>>>
    [] pl = "both" -> <<"tcm", t, <<"cm", t, <<"list", <<Seven>>>>>>>>
Plain(pl) ==
  CASE pl = "top" -> Seven
    [] pl = "list-item" -> <<"list", <<Eight, Seven>>>>
    [] pl = "list-first-of-two" -> <<"list", <<Seven, Eight>>>>
    [] pl = "tuple-sole" -> <<"tuple", <<Seven>>>>
    [] pl = "dict-value" -> <<"dict", <<<<KeyK, <<"list", <<Seven, Eight>>>>>>, <<Eight, Seven>>>>>>
    [] pl = "dict-key" -> <<"dict", <<<<Seven, Eight>>>>>>
    [] pl = "trailing-list" -> <<"list", <<Seven, Eight>>>>
    [] pl = "trailing-dict" -> <<"dict", <<<<Seven, Eight>>>>>>
    [] pl = "call-arg" -> <<"call", <<70>>, <<Seven, Eight>>, <<<<<<107>>, Eight>>>>>>
    [] pl = "both" -> <<"list", <<Seven>>>>
\* how many times the text is attached
Copies(pl) == IF pl \in {"call-arg", "both"} THEN 2 ELSE 1

IsLetter(c) == c \in {97, 98}
Letters(s) == SelectSeq(s, IsLetter)
NonWs(s) == SelectSeq(s, LAMBDA c : c \notin {32, 9, 10})
\* a comment text without a letter is still a comment ('#'), but an all-whitespace one: '# ' + prefix
RECURSIVE StripComments(_, _, _)
StripComments(s, i, inC) ==
  IF i > Len(s) THEN <<>>
  ELSE IF s[i] = 10 THEN <<10>> \o StripComments(s, i + 1, FALSE)
  ELSE IF inC \/ s[i] = 35 THEN StripComments(s, i + 1, TRUE)
  ELSE <<s[i]>> \o StripComments(s, i + 1, FALSE)
RECURSIVE InsideOK(_, _, _)
InsideOK(s, i, inC) ==
  IF i > Len(s) THEN TRUE
  ELSE IF s[i] = 10 THEN InsideOK(s, i + 1, FALSE)
  ELSE IF s[i] = 35 THEN InsideOK(s, i + 1, TRUE)
  ELSE IF IsLetter(s[i]) /\ ~inC THEN FALSE
  ELSE InsideOK(s, i + 1, inC)
\* a comma directly before a closing ] or } is optional in Python (the list printer writes one before a trailing
\* comment); before ) it is not touched: the one-element tuple needs it
RECURSIVE DropOptionalCommas(_, _)
DropOptionalCommas(s, i) ==
  IF i > Len(s) THEN <<>>
  ELSE IF s[i] = 44 /\ i < Len(s) /\ s[i + 1] \in {93, 125} THEN DropOptionalCommas(s, i + 1)
  ELSE <<s[i]>> \o DropOptionalCommas(s, i + 1)
RECURSIVE Rep(_, _)
Rep(s, k) == IF k = 0 THEN <<>> ELSE s \o Rep(s, k - 1)
\* the one-element tuple's dangling comma, and a trailing comment's position, never change the non-comment characters
Cases == SetToSeq(Texts \X Widths \X Places)

Verdict == [i \in 1..Len(Cases) |->
  LET t == Cases[i][1]
      w == Cases[i][2]
      pl == Cases[i][3]
      out0 == Pformat(Commented(pl, t), 2, w, -1, w, 1000)
      hash == IF out0[1] THEN SelectInSeq(out0[2], LAMBDA c : c = 35) ELSE 0
      out == IF Canary /\ out0[1] /\ hash > 0
             THEN <<TRUE, SubSeq(out0[2], 1, hash - 1) \o SubSeq(out0[2], hash + 1, Len(out0[2]))>> ELSE out0
      ref == Pformat(Plain(pl), 2, w, -1, w, 1000)
  IN IF ~out[1] \/ ~ref[1] THEN <<"unmodelled">>
     ELSE << IF Letters(out[2]) = Rep(Letters(t), Copies(pl)) THEN "ok" ELSE "Preserved",
             IF InsideOK(out[2], 1, FALSE) THEN "ok" ELSE "Inside",
             IF DropOptionalCommas(NonWs(StripComments(out[2], 1, FALSE)), 1) = DropOptionalCommas(NonWs(ref[2]), 1)
             THEN "ok" ELSE "Inert" >>]

\* the cases are split over NShards JVMs (the table is evaluated while the initial states are generated,
\* which TLC does on one thread)
CONSTANTS Shard, NShards
VARIABLE cs
Init == cs \in {i \in 1..Len(Cases) : i % NShards = Shard}
Next == FALSE /\ UNCHANGED cs
Holds == Verdict[cs] \in {<<"ok", "ok", "ok">>}
Report == (~Holds) => PrintT(<<"BAD", Cases[cs], Verdict[cs]>>)
=============================================================================
