------------------------------ MODULE TermTrace ------------------------------
(***************************************************************************)
(* Batch validation of parsed pformat outputs against PyTerm.                *)
(* case = [id, mode, obs (syntax term), val (value term), subs, N, notices]   *)
(*   mode "eq"    : TEq(Denote(obs), val)                      (C01,C07,C08)  *)
(*   mode "trunc" : TEq(Denote(obs), Truncate(val, N)) and the truncation     *)
(*                  notices are exactly Dropped(val, N)               (C10)   *)
(*   mode "same"  : obs = val as SYNTAX terms (two outputs parse alike)       *)
(*                                                               (C03, C09)   *)
(*   mode "cut"   : obs = CutSyn(val, N, re, rk) for which (re, rk)   (C11)   *)
(*   mode "layout": obs = val (print under the reference configuration) and   *)
(*                  every leading-space count (notices) is a multiple of N    *)
(*                  (= indent)                                        (C03)   *)
(*   mode "comment": obs = val (uncommented print) and comment words = merge  *)
(*                  of the attached comments                          (C09)   *)
(***************************************************************************)
EXTENDS PyTerm, TLC, Json, IOUtils

Cases == ndJsonDeserialize(IOEnv.CASES)

VARIABLE cs
Init == cs \in 1..Len(Cases)
Next == FALSE /\ UNCHANGED cs

RECURSIVE IsMerge(_, _)
\* out is an interleaving of the sequences in seqs (each kept in order, nothing else)
IsMerge(out, seqs) ==
  IF Len(out) = 0 THEN \A i \in 1..Len(seqs) : Len(seqs[i]) = 0
  ELSE \E i \in 1..Len(seqs) :
         /\ Len(seqs[i]) > 0 /\ seqs[i][1] = out[1]
         /\ IsMerge(Tail(out), [seqs EXCEPT ![i] = Tail(@)])

Subs(c) == {<<c.subs[i][1], c.subs[i][2]>> : i \in 1..Len(c.subs)}

Verdict(c) ==
  CASE c.mode = "eq" -> TEq(Denote(c.obs, Subs(c)), c.val)
    [] c.mode = "trunc" -> /\ TEq(Denote(c.obs, Subs(c)), Truncate(c.val, c.N))
                           /\ SameBag(c.notices, Dropped(c.val, c.N))
    [] c.mode = "same" -> c.obs = c.val
    \* C09: same syntax tree as the uncommented print, and the words found in '#'
    \* comments are an order-preserving merge of the attached comment texts
    \* C03: same syntax tree as under the reference configuration, and every line is
    \* indented by a multiple of the indent setting
    [] c.mode = "layout" -> c.obs = c.val /\ \A i \in 1..Len(c.notices) : c.notices[i] % c.N = 0
    [] c.mode = "comment" -> c.obs = c.val /\ IsMerge(c.cwords, c.attached)

\* Constant-level tables (TLC caches LET / argument values only for constant-level
\* expressions; under a state the recursive operators are re-evaluated at every
\* reference, which is exponential in the nesting depth of the terms).
Verdicts == [i \in 1..Len(Cases) |-> IF Cases[i].mode = "cut" THEN FALSE ELSE Verdict(Cases[i])]

\* C11: which of the four (empty-at-cut, str-key-at-cut) variants the output equals
CutVariants(c) == {<<re, rk>> \in BOOLEAN \X BOOLEAN : c.obs = CutSyn(c.val, c.N, re, rk)}
Cuts == [i \in 1..Len(Cases) |-> IF Cases[i].mode = "cut" THEN CutVariants(Cases[i]) ELSE {}]

Report ==
  IF Cases[cs].mode = "cut"
  THEN PrintT(<<"CUT", Cases[cs].id, Cuts[cs]>>)
  ELSE Verdicts[cs] => PrintT(<<"ACCEPT", Cases[cs].id>>)
=============================================================================
