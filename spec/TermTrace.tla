------------------------------ MODULE TermTrace ------------------------------
(***************************************************************************)
(* Batch validation of parsed pformat outputs against PyTerm.                *)
(* case = [id, mode, obs (syntax term), val (value term), subs, N, notices]   *)
(*   mode "eq"    : TEq(Denote(obs), val)                      (C01,C07,C08)  *)
(*   mode "trunc" : TEq(Denote(obs), Truncate(val, N)) and the truncation     *)
(*                  notices are exactly Dropped(val, N)               (C10)   *)
(*   mode "same"  : obs = val as SYNTAX terms (two outputs parse alike)       *)
(*                                                               (C03, C09)   *)
(***************************************************************************)
EXTENDS PyTerm, TLC, Json, IOUtils

Cases == ndJsonDeserialize(IOEnv.CASES)

VARIABLE cs
Init == cs \in 1..Len(Cases)
Next == FALSE /\ UNCHANGED cs

Subs(c) == {<<c.subs[i][1], c.subs[i][2]>> : i \in 1..Len(c.subs)}

Verdict(c) ==
  CASE c.mode = "eq" -> TEq(Denote(c.obs, Subs(c)), c.val)
    [] c.mode = "trunc" -> /\ TEq(Denote(c.obs, Subs(c)), Truncate(c.val, c.N))
                           /\ SameBag(c.notices, Dropped(c.val, c.N))
    [] c.mode = "same" -> c.obs = c.val

Report == Verdict(Cases[cs]) => PrintT(<<"ACCEPT", Cases[cs].id>>)
=============================================================================
