------------------------------- MODULE WalkMC -------------------------------
(* Step-wise model checking of Walk over a batch of graphs x fault plans:     *)
(* concrete visit bracket => abstract Unfold, visited = pending exits,        *)
(* no residue, bounded work.                                                  *)
EXTENDS Walk, Json, IOUtils

Cases == ndJsonDeserialize(IOEnv.CASES)

VARIABLES cs, fault, s
vars == <<cs, fault, s>>

NObj(g) == Cardinality({n \in 1..Len(g) : g[n].k = "obj"})

Init == /\ cs \in 1..Len(Cases)
        /\ fault \in 0..(IF Cases[cs].faults THEN 2 * NObj(Cases[cs].graph) + 1 ELSE 0)
        /\ s = WInit(Cases[cs].root)

Next == /\ Len(s.work) > 0
        /\ s' = WStep(Cases[cs].graph, fault, s)
        /\ UNCHANGED <<cs, fault>>

\* the set of ids on the context = the nodes whose printer is still running
VisitedIsPath == s.visited = PendingExits(s)
Finished == Len(s.work) = 0
NoResidue == Finished => s.visited = {}
RefinesUnfold == Finished => /\ s.out = Unfold(Cases[cs].graph, Cases[cs].root, fault).out
                             /\ s.inv = Unfold(Cases[cs].graph, Cases[cs].root, fault).inv
AtMostOneWarning == Len(s.warns) <= 1 /\ (Finished /\ fault # 0 /\ fault <= s.inv => Len(s.warns) = 1)
\* termination: the work never grows beyond what the unfolding needs
Emit == Finished => PrintT(<<"DONE", Cases[cs].id, fault, Len(s.out), s.inv>>)
=============================================================================
