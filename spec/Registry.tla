------------------------------ MODULE Registry ------------------------------
(***************************************************************************)
(* Printer registry (property C15; also the sequential core of C19/C20).    *)
(*                                                                         *)
(*   prettyprinter.py  register_pretty, is_registered, pretty_python_value, *)
(*                     _repr_pretty, pretty_dispatch (functools.singledispatch)*)
(*                                                                         *)
(* ABSTRACT rule (the property): the printer used for an instance of class  *)
(* c is a function of the REGISTRATION history only:                        *)
(*   nearest class k in the MRO of c that has a registration (by class or   *)
(*   by qualified name) -> the printer registered for k; otherwise the      *)
(*   first-registered predicate accepting the value; otherwise repr.        *)
(* "A later registration for a class replaces an earlier one, deferred and    *)
(* direct registration being equivalent": where a class holds both a by-class  *)
(* and a by-name registration the LATER one is the effective one (this is      *)
(* also how an independent reader of the property understood it, see           *)
(* seeded/C15).  Stable additionally demands that the printer used for a class *)
(* never changes between two registrations (prints and is_registered queries   *)
(* are not registrations).                                                     *)
(*                                                                         *)
(* CONCRETE state = what the module keeps:                                  *)
(*   direct[c]   pretty_dispatch.registry            (0 = absent)           *)
(*   deferred[c] _DEFERRED_DISPATCH_BY_NAME[name(c)] (0 = absent)           *)
(*   preds       _PREDICATE_REGISTRY                                        *)
(* with one operator per function of the code.  This module is pure         *)
(* (operators only); RegistryMC explores it, RegistryTrace validates        *)
(* recorded executions against it.                                          *)
(***************************************************************************)
EXTENDS Naturals, Integers, Sequences, FiniteSets

CONSTANT Lattice   \* "full" | "chain" | "multi" | "diamond": which part of the class lattice is in play

\* class A; class B(A); class C(B); class M; class D(B, M); class E(A); class F(B, E)   (object omitted)
\* F closes a diamond over A: its MRO (C3 linearisation) is F, B, E, A - a depth-first walk of the bases
\* would meet A before E
Classes == CASE Lattice = "full" -> {"A", "B", "C", "M", "D", "E", "F"}
             [] Lattice = "chain" -> {"A", "B", "C"}
             [] Lattice = "multi" -> {"B", "M", "D"}
             [] Lattice = "diamond" -> {"A", "B", "E", "F"}
FullMro(c) == CASE c = "A" -> <<"A">>
                [] c = "B" -> <<"B", "A">>
                [] c = "C" -> <<"C", "B", "A">>
                [] c = "M" -> <<"M">>
                [] c = "D" -> <<"D", "B", "A", "M">>
                [] c = "E" -> <<"E", "A">>
                [] c = "F" -> <<"F", "B", "E", "A">>
Mro == [c \in Classes |-> SelectSeq(FullMro(c), LAMBDA k : k \in Classes)]

Preds == {"q1", "q2"}
\* q1 = isinstance(x, A), q2 = isinstance(x, M)
PredDom == [q \in Preds |-> IF q = "q1" THEN {"A", "B", "C", "D", "E", "F"} \cap Classes ELSE {"M", "D"} \cap Classes]

REPR == 0        \* printer id 0 = default repr / "absent"

-----------------------------------------------------------------------------
(* Abstract registration history, reduced to what the rule needs            *)

AbsInit == [dir |-> [c \in Classes |-> 0], nam |-> [c \in Classes |-> 0],
            later |-> [c \in Classes |-> "none"], preds |-> <<>>]

\* later[c]: the kind of the most recent registration for c
ARegClass(a, c, p) == [a EXCEPT !.dir[c] = p, !.later[c] = "class"]
ARegName(a, c, p) == [a EXCEPT !.nam[c] = p, !.later[c] = "name"]
ARegPred(a, q, p) == [a EXCEPT !.preds = Append(@, <<q, p>>)]

HasReg(a, k) == a.dir[k] # 0 \/ a.nam[k] # 0

RECURSIVE FirstIdx(_, _, _)
\* first index i >= from of sequence s with P(s[i]) (0 if none); P given as a set of indices
FirstIdx(idxs, from, n) == IF from > n THEN 0 ELSE IF from \in idxs THEN from ELSE FirstIdx(idxs, from + 1, n)

NearestReg(a, c) ==
  LET m == Mro[c] IN FirstIdx({i \in 1..Len(m) : HasReg(a, m[i])}, 1, Len(m))

FirstPred(preds, c) ==
  FirstIdx({i \in 1..Len(preds) : c \in PredDom[preds[i][1]]}, 1, Len(preds))

\* the set of printers the property allows for an instance of c
AllowedPrint(a, c) ==
  LET i == NearestReg(a, c) IN
  IF i # 0 THEN (IF a.later[Mro[c][i]] = "class" THEN {a.dir[Mro[c][i]]} ELSE {a.nam[Mro[c][i]]})
  ELSE LET j == FirstPred(a.preds, c) IN
       IF j # 0 THEN {a.preds[j][2]} ELSE {REPR}

\* allowed answers of is_registered(c, check_superclasses=cs, check_deferred=cd)
AllowedIsReg(a, c, cs, cd) ==
  LET scope == IF cs THEN {Mro[c][i] : i \in 1..Len(Mro[c])} ELSE {c}
      hasClass == \E k \in scope : a.dir[k] # 0
      hasName == \E k \in scope : a.nam[k] # 0
  IN IF hasClass THEN {"T"}
     ELSE IF hasName THEN (IF cd THEN {"T"} ELSE {"T", "F"})  \* promotion by an earlier print is unobservable abstractly
     ELSE {"F"}

-----------------------------------------------------------------------------
(* Concrete module state and functions                                      *)

ConcInit == [direct |-> [c \in Classes |-> 0], deferred |-> [c \in Classes |-> 0], preds |-> <<>>]

\* register_pretty(cls)(fn): singledispatch.register + drop the pending by-name entry
CRegClass(s, c, p) == [s EXCEPT !.direct[c] = p, !.deferred[c] = 0]
\* register_pretty('module.Name')(fn)
CRegName(s, c, p) == [s EXCEPT !.deferred[c] = p]
\* register_pretty(predicate=q)(fn)
CRegPred(s, q, p) == [s EXCEPT !.preds = Append(@, <<q, p>>)]

\* pretty_dispatch.dispatch(cls): nearest registered class in the MRO (0 = _BASE_DISPATCH)
Dispatch(s, c) ==
  LET m == Mro[c]
      i == FirstIdx({j \in 1..Len(m) : s.direct[m[j]] # 0}, 1, Len(m))
  IN IF i = 0 THEN 0 ELSE s.direct[m[i]]

\* is_registered(type, check_superclasses, check_deferred, register_deferred) -> <<result, state'>>
\* results: "T" / "F" / "E" (the illegal combination ~cd /\ rd raises ValueError)
CIsReg(s, c, cs, cd, rd) ==
  IF ~cd /\ rd THEN <<"E", s>>
  ELSE
  LET cand == IF cs THEN Mro[c] ELSE <<c>>
      pend == {cand[i] : i \in {j \in 1..Len(cand) : s.deferred[cand[j]] # 0}}
      promoted == [s EXCEPT !.direct = [k \in Classes |-> IF k \in pend THEN s.deferred[k] ELSE s.direct[k]],
                            !.deferred = [k \in Classes |-> IF k \in pend THEN 0 ELSE s.deferred[k]]]
  IN IF cd /\ pend # {} THEN <<"T", IF rd THEN promoted ELSE s>>
     ELSE IF s.direct[c] # 0 THEN <<"T", s>>
     ELSE IF ~cs THEN <<"F", s>>
     ELSE <<IF Dispatch(s, c) # 0 THEN "T" ELSE "F", s>>

\* pretty_python_value on an instance of c -> <<printer used, state'>>
CPrint(s, c) ==
  LET s2 == CIsReg(s, c, TRUE, TRUE, TRUE)[2]
      d == Dispatch(s2, c)
      j == FirstPred(s2.preds, c)
  IN <<IF d # 0 THEN d ELSE IF j # 0 THEN s2.preds[j][2] ELSE REPR, s2>>

\* what the harness can read from the real module
Projection(s) == [direct |-> s.direct, deferred |-> s.deferred, npreds |-> Len(s.preds)]
=============================================================================
