------------------------------- MODULE History -------------------------------
(***************************************************************************)
(* Property C19: pformat is a pure function of (value, settings) within one  *)
(* interpreter, and never modifies its input.                                *)
(*                                                                         *)
(* The only state the package keeps between calls is a set of WARM caches:   *)
(*   - by-name printers promoted to the live registry on first use,          *)
(*   - the struct-sequence field-name cache,                                 *)
(* Each corpus value v has a footprint foot[v] (the cache entries its first  *)
(* print in a fresh interpreter creates) and a baseline text base[v].        *)
(*                                                                         *)
(* ABSTRACT: every print of v in every history returns base[v] and leaves v  *)
(* (and everything reachable from it) unchanged.                             *)
(* CONCRETE: warm' = warm \cup foot[v]; the observed cache projection after  *)
(* every print equals the predicted one (DRIFT otherwise).                   *)
(*                                                                         *)
(* case = [id, base : <<[text, foot]>>, hist : <<[v, text, proj, same]>>]     *)
(***************************************************************************)
EXTENDS Naturals, Integers, Sequences, FiniteSets, TLC, Json, IOUtils

Cases == ndJsonDeserialize(IOEnv.CASES)
SetOf(s) == {s[j] : j \in 1..Len(s)}

VARIABLES tr, i, warm, bad, drift
vars == <<tr, i, warm, bad, drift>>

Init == tr \in 1..Len(Cases) /\ i = 1 /\ warm = {} /\ bad = {} /\ drift = {}

Step ==
  /\ i <= Len(Cases[tr].hist)
  /\ i' = i + 1 /\ UNCHANGED tr
  /\ LET e == Cases[tr].hist[i]
         b == Cases[tr].base[e.v]
     IN /\ warm' = warm \cup SetOf(b.foot)
        /\ bad' = bad
             \cup (IF e.text # b.text THEN {<<i, "C19.history-dependent">>} ELSE {})
             \cup (IF ~e.same THEN {<<i, "C19.input-modified">>} ELSE {})
        /\ drift' = IF SetOf(e.proj) # warm' THEN drift \cup {i} ELSE drift

Next == Step
\* the purity statement: the text function does not read `warm`
Done == (i = Len(Cases[tr].hist) + 1) => PrintT(<<"DONE", Cases[tr].id, bad, drift>>)
=============================================================================
