------------------------------ MODULE WalkTrace ------------------------------
(***************************************************************************)
(* Trace validation for C13 / C14.                                          *)
(* case = [id, graph, root, fault, obs (token sequence of the parsed output), *)
(*         obs2 (second print, fault-free), log (start/end/hit events),       *)
(*         residue (ids left in ctx.visited), nwarn (failure warnings)]       *)
(* ABSTRACT verdict: set of failing clauses (output = Unfold, second print,   *)
(* warnings); CONCRETE: model = observation, nothing left in ctx.visited.     *)
(***************************************************************************)
EXTENDS Walk, Json, IOUtils

Cases == ndJsonDeserialize(IOEnv.CASES)

VARIABLE cs
Init == cs \in 1..Len(Cases)
Next == FALSE /\ UNCHANGED cs

Tok(t) == IF Len(t) = 3 THEN <<t[1], t[2], t[3]>> ELSE <<t[1], t[2]>>
Toks(ts) == [i \in 1..Len(ts) |-> Tok(ts[i])]

Bad(c) ==
  LET u == Unfold(c.graph, c.root, c.fault)
      u0 == Unfold(c.graph, c.root, 0)
  IN (IF Toks(c.obs) # u.out THEN {"unfold"} ELSE {})
     \cup (IF Toks(c.obs2) # u0.out THEN {"repeat"} ELSE {})
     \cup (IF c.nwarn # (IF c.fault # 0 /\ c.fault <= u.inv THEN 1 ELSE 0) THEN {"warning"} ELSE {})

\* (entries left in ctx.visited after the call are per-call state: unobservable, so only DRIFT)
Drift(c) ==
  LET m == WRun(c.graph, c.fault, WInit(c.root))
  IN (~c.lazy /\ c.residue # 0) \/ m.out # Toks(c.obs)     \* (the lazy rendering works on a COPY of the visited set)
     \* c.lazy: some node is reached through comment(): as a dict value it is rendered a second time during
     \* layout (with a copy of the visited set), which the visit-bracket machine does not transcribe
     \/ (~c.lazy /\ [i \in 1..Len(m.log) |-> <<m.log[i][1], m.log[i][2]>>]
                       # [i \in 1..Len(c.log) |-> <<c.log[i][1], c.log[i][2]>>])

Report == PrintT(<<"DONE", Cases[cs].id, Bad(Cases[cs]), Drift(Cases[cs])>>)
=============================================================================
