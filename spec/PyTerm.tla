------------------------------- MODULE PyTerm -------------------------------
(***************************************************************************)
(* Semantics of the printed sub-language of Python (properties C01, C02,     *)
(* C03, C07-C11, C13, C14, C17).                                             *)
(*                                                                         *)
(* SYNTAX terms (what the harness extracts from the output text with         *)
(* ast.parse -- syntax only, nothing is evaluated):                          *)
(*   <<"int", digits>>  <<"float", repr>>  <<"bool", 0|1>>  <<"none">>       *)
(*   <<"ellipsis">>  <<"str", codes>>  <<"bytes", codes>>                    *)
(*   <<"list", <<t..>>>> <<"tuple", ..>> <<"set", ..>>                        *)
(*   <<"dict", << <<k, v>> .. >>>>                                           *)
(*   <<"call", dotted name, <<args>>, << <<kw, t>> .. >>>>                    *)
(*   <<"neg", t>>  <<"name", dotted>>  <<"binop", op, l, r>>                  *)
(*   <<"rec", typename, node>>     a "<Recursion on T with id=N>" marker      *)
(*                                                                         *)
(* VALUE terms (what the harness builds from the real Python object, with    *)
(* exact types): the literal forms above plus <<"frozenset", ..>>,            *)
(* <<"sub", qualname, base value>>, <<"dictany", pairs>> (order unspecified), *)
(* <<"obj", dotted name, <<args>>, <<kwargs>>>> (constructor semantics)      *)
(*                                                                         *)
(* Denote : syntax term -> value term (BOT where the text is outside the     *)
(* sub-language);  TEq : typed structural equality (sets as sets).           *)
(***************************************************************************)
EXTENDS Naturals, Integers, Sequences, FiniteSets

BOT == <<"bottom">>
IsBot(t) == t[1] = "bottom"

Range(s) == {s[i] : i \in 1..Len(s)}

RECURSIVE Denote(_, _)
\* subs: set of <<qualname, base kind>> of user subclasses of built-in types in scope
\* (\o <<>> forces TLC's lazy function value into a tuple; otherwise every xs[i] re-runs Denote)
DenoteSeq(ts, subs) == [i \in 1..Len(ts) |-> Denote(ts[i], subs)] \o <<>>
AnyBot(vs) == \E i \in 1..Len(vs) : IsBot(vs[i])

EmptyOf(kind) ==
  CASE kind = "list" -> <<"list", <<>>>>
    [] kind = "tuple" -> <<"tuple", <<>>>>
    [] kind = "set" -> <<"set", <<>>>>
    [] kind = "frozenset" -> <<"frozenset", <<>>>>
    [] kind = "dict" -> <<"dict", <<>>>>
    [] kind = "str" -> <<"str", <<>>>>
    [] kind = "bytes" -> <<"bytes", <<>>>>
    [] kind = "int" -> <<"int", "0">>
    [] kind = "float" -> <<"float", "0.0">>
    [] OTHER -> BOT

Denote(t, subs) ==
  CASE t[1] \in {"int", "float", "bool", "none", "ellipsis", "str", "bytes"} -> t
    [] t[1] = "neg" ->
         LET x == Denote(t[2], subs) IN
         IF x[1] = "int" THEN <<"int", IF x[2] = "0" THEN "0" ELSE "-" \o x[2]>>
         ELSE IF x[1] = "float" THEN <<"float", "-" \o x[2]>>
         ELSE BOT
    [] t[1] \in {"list", "tuple", "set"} ->
         LET xs == DenoteSeq(t[2], subs) IN IF AnyBot(xs) THEN BOT ELSE <<t[1], xs>>
    [] t[1] = "dict" ->
         LET ps == [i \in 1..Len(t[2]) |-> <<Denote(t[2][i][1], subs), Denote(t[2][i][2], subs)>>] \o <<>> IN
         IF \E i \in 1..Len(ps) : IsBot(ps[i][1]) \/ IsBot(ps[i][2]) THEN BOT ELSE <<"dict", ps>>
    [] t[1] = "call" ->
         LET f == t[2]
             args == t[3]
             kws == t[4]
         IN
         IF f = "float" /\ Len(kws) = 0 /\ Len(args) = 1 /\ args[1][1] = "str"
         THEN (CASE args[1][2] = <<105, 110, 102>> -> <<"float", "inf">>            \* 'inf'
                 [] args[1][2] = <<45, 105, 110, 102>> -> <<"float", "-inf">>       \* '-inf'
                 [] args[1][2] = <<110, 97, 110>> -> <<"float", "nan">>             \* 'nan'
                 [] OTHER -> BOT)
         ELSE IF f = "set" /\ Len(args) = 0 /\ Len(kws) = 0 THEN <<"set", <<>>>>
         ELSE IF f = "frozenset" /\ Len(kws) = 0 /\ Len(args) = 0 THEN <<"frozenset", <<>>>>
         ELSE IF f = "frozenset" /\ Len(kws) = 0 /\ Len(args) = 1 /\ args[1][1] \in {"list", "tuple", "set"}
              THEN LET xs == DenoteSeq(args[1][2], subs) IN IF AnyBot(xs) THEN BOT ELSE <<"frozenset", xs>>
         ELSE IF \E s \in subs : s[1] = f
              THEN LET kind == (CHOOSE s \in subs : s[1] = f)[2] IN
                   IF Len(kws) # 0 THEN BOT
                   ELSE IF Len(args) = 0 THEN <<"sub", f, EmptyOf(kind)>>
                   ELSE IF Len(args) = 1
                        THEN LET x == Denote(args[1], subs) IN
                             IF IsBot(x) THEN BOT
                             \* a frozenset has no literal: its elements are given as a list (or any other literal iterable)
                             ELSE IF kind = "frozenset" /\ x[1] \in {"list", "tuple", "set"} THEN <<"sub", f, <<"frozenset", x[2]>>>>
                             \* inf / nan have no literal either: Sub('inf') like float('inf')
                             ELSE IF kind = "float" /\ x[1] = "str" /\ x[2] = <<105, 110, 102>>
                                  THEN <<"sub", f, <<"float", "inf">>>>
                             ELSE IF kind = "float" /\ x[1] = "str" /\ x[2] = <<45, 105, 110, 102>>
                                  THEN <<"sub", f, <<"float", "-inf">>>>
                             ELSE IF kind = "float" /\ x[1] = "str" /\ x[2] = <<110, 97, 110>>
                                  THEN <<"sub", f, <<"float", "nan">>>>
                             ELSE IF x[1] # kind THEN BOT ELSE <<"sub", f, x>>
                        ELSE BOT
         ELSE \* a constructor call: denotes the object built from the denoted arguments
              LET xs == DenoteSeq(args, subs)
                  ks == [i \in 1..Len(kws) |-> <<kws[i][1], Denote(kws[i][2], subs)>>] \o <<>>
              IN IF AnyBot(xs) \/ (\E i \in 1..Len(ks) : IsBot(ks[i][2])) THEN BOT
                 ELSE <<"obj", f, xs, ks>>
    [] t[1] = "name" -> <<"obj", t[2], <<>>, <<>>>>     \* e.g. datetime.timezone.utc, Color.RED
    [] t[1] = "rec" -> t
    [] OTHER -> BOT

-----------------------------------------------------------------------------
RECURSIVE TEq(_, _)
SeqEq(xs, ys) == Len(xs) = Len(ys) /\ \A i \in 1..Len(xs) : TEq(xs[i], ys[i])
\* multiset equality of element sequences (sets print in iteration order, which
\* evaluation does not have to reproduce)
BagEq(xs, ys) ==
  /\ Len(xs) = Len(ys)
  /\ \A i \in 1..Len(xs) :
       Cardinality({j \in 1..Len(xs) : TEq(xs[j], xs[i])}) = Cardinality({j \in 1..Len(ys) : TEq(ys[j], xs[i])})
PairSeqEq(ps, qs) == Len(ps) = Len(qs) /\ \A i \in 1..Len(ps) : TEq(ps[i][1], qs[i][1]) /\ TEq(ps[i][2], qs[i][2])
PairBagEq(ps, qs) ==
  /\ Len(ps) = Len(qs)
  /\ \A i \in 1..Len(ps) : \E j \in 1..Len(qs) : TEq(ps[i][1], qs[j][1]) /\ TEq(ps[i][2], qs[j][2])

\* TEq(observed denotation, expected value term)
TEq(a, b) ==
  IF b[1] = "dictany" THEN a[1] = "dict" /\ PairBagEq(a[2], b[2])
  ELSE IF a[1] # b[1] THEN FALSE
  ELSE CASE a[1] \in {"none", "ellipsis"} -> TRUE
         [] a[1] \in {"int", "float", "bool", "str", "bytes"} -> a[2] = b[2]
         [] a[1] \in {"list", "tuple"} -> SeqEq(a[2], b[2])
         [] a[1] \in {"set", "frozenset"} -> BagEq(a[2], b[2])
         [] a[1] = "dict" -> PairSeqEq(a[2], b[2])
         [] a[1] = "sub" -> a[2] = b[2] /\ TEq(a[3], b[3])
         [] a[1] = "rec" -> a[2] = b[2] /\ a[3] = b[3]
         [] a[1] = "obj" -> /\ a[2] = b[2] /\ SeqEq(a[3], b[3])
                            /\ Len(a[4]) = Len(b[4])
                            /\ \A i \in 1..Len(a[4]) : a[4][i][1] = b[4][i][1] /\ TEq(a[4][i][2], b[4][i][2])
         [] OTHER -> FALSE

-----------------------------------------------------------------------------
(* C10: Truncate(v, N) -- first min(len, N) elements at every level          *)
RECURSIVE Truncate(_, _)
Take(s, n) == SubSeq(s, 1, IF Len(s) < n THEN Len(s) ELSE n)
Truncate(v, N) ==
  CASE v[1] \in {"list", "tuple", "set", "frozenset"} ->
         <<v[1], [i \in 1..Len(Take(v[2], N)) |-> Truncate(v[2][i], N)] \o <<>>>>
    [] v[1] \in {"dict", "dictany"} ->
         <<v[1], [i \in 1..Len(Take(v[2], N)) |-> <<Truncate(v[2][i][1], N), Truncate(v[2][i][2], N)>>] \o <<>>>>
    [] v[1] = "sub" -> <<"sub", v[2], Truncate(v[3], N)>>
    [] OTHER -> v

\* multiset of "len - N" over all containers longer than N (the truncation notices)
RECURSIVE Dropped(_, _)
SumSeq(f, n) == LET RECURSIVE S(_) S(i) == IF i > n THEN <<>> ELSE f[i] \o S(i + 1) IN S(1)
Dropped(v, N) ==
  CASE v[1] \in {"list", "tuple", "set", "frozenset"} ->
         (IF Len(v[2]) > N THEN <<Len(v[2]) - N>> ELSE <<>>)
           \o SumSeq([i \in 1..Len(Take(v[2], N)) |-> Dropped(v[2][i], N)], Len(Take(v[2], N)))
    [] v[1] \in {"dict", "dictany"} ->
         (IF Len(v[2]) > N THEN <<Len(v[2]) - N>> ELSE <<>>)
           \o SumSeq([i \in 1..Len(Take(v[2], N)) |-> Dropped(v[2][i][1], N) \o Dropped(v[2][i][2], N)],
                     Len(Take(v[2], N)))
    [] v[1] = "sub" -> Dropped(v[3], N)
    [] OTHER -> <<>>

SameBag(xs, ys) ==
  /\ Len(xs) = Len(ys)
  /\ \A i \in 1..Len(xs) :
       Cardinality({j \in 1..Len(xs) : xs[j] = xs[i]}) = Cardinality({j \in 1..Len(ys) : ys[j] = xs[i]})

-----------------------------------------------------------------------------
(* C11: CutSyn(v, d, re, rk) -- the SYNTAX the output must have when depth = d:  *)
(* a node nested in k containers is printed in full iff k < d, otherwise it is   *)
(* the placeholder of its type.  (How the placeholders parse: "[...]" is a list  *)
(* holding Ellipsis, "(...)" is a parenthesised Ellipsis, "{...}" a set holding  *)
(* Ellipsis, "set(...)", "int(...)", "str(...)" ... are calls on Ellipsis.)      *)
(* re / rk switch on the two recorded deviations of the code:                    *)
(*   re: an EMPTY container at the cut level is printed in full ("[]")           *)
(*   rk: a str/bytes dict KEY is printed with the dict's own context, i.e. in    *)
(*       full at the cut level                                                   *)
ELL == <<"ellipsis">>
PhCall(name) == <<"call", name, <<ELL>>, <<>>>>
Placeholder(v) ==
  CASE v[1] = "list" -> <<"list", <<ELL>>>>
    [] v[1] = "tuple" -> ELL
    [] v[1] \in {"dict", "dictany"} -> <<"set", <<ELL>>>>
    [] v[1] \in {"set", "frozenset", "int", "float", "str", "bytes"} -> PhCall(v[1])
    \* an instance of a type printed as a call (namedtuple, SimpleNamespace, a pretty_call printer): Name(...)
    [] v[1] = "call" -> PhCall(v[2])
    [] OTHER -> v                       \* bool / None have no depth check

\* (only list and tuple printers test emptiness before the depth)
IsEmptyContainer(v) == v[1] \in {"list", "tuple"} /\ Len(v[2]) = 0

RECURSIVE CutSyn(_, _, _, _)
SynEmpty(v) == CASE v[1] = "set" -> <<"call", "set", <<>>, <<>>>>
                 [] v[1] = "frozenset" -> <<"call", "frozenset", <<>>, <<>>>>
                 [] OTHER -> <<(IF v[1] = "dictany" THEN "dict" ELSE v[1]), <<>>>>
CutSyn(v, d, re, rk) ==
  IF d <= 0 /\ ~(re /\ IsEmptyContainer(v)) THEN Placeholder(v)
  ELSE CASE v[1] \in {"list", "tuple", "set"} ->
              IF Len(v[2]) = 0 THEN SynEmpty(v)
              ELSE <<v[1], [i \in 1..Len(v[2]) |-> CutSyn(v[2][i], d - 1, re, rk)] \o <<>>>>
         [] v[1] = "frozenset" ->
              IF Len(v[2]) = 0 THEN SynEmpty(v)
              ELSE <<"call", "frozenset",
                     << <<"list", [i \in 1..Len(v[2]) |-> CutSyn(v[2][i], d - 1, re, rk)] \o <<>>>> >>, <<>>>>
         [] v[1] \in {"dict", "dictany"} ->
              <<"dict", [i \in 1..Len(v[2]) |->
                          <<IF rk /\ v[2][i][1][1] \in {"str", "bytes"} THEN v[2][i][1]
                            ELSE CutSyn(v[2][i][1], d - 1, re, rk),
                            CutSyn(v[2][i][2], d - 1, re, rk)>>] \o <<>>>>
         \* <<"call", name, args, kwargs>>: the arguments are nested one level deeper
         [] v[1] = "call" ->
              <<"call", v[2], [i \in 1..Len(v[3]) |-> CutSyn(v[3][i], d - 1, re, rk)] \o <<>>,
                [i \in 1..Len(v[4]) |-> <<v[4][i][1], CutSyn(v[4][i][2], d - 1, re, rk)>>] \o <<>>>>
         [] OTHER -> v
=============================================================================
