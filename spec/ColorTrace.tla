----------------------------- MODULE ColorTrace -----------------------------
(***************************************************************************)
(* Validation of what colored_render_to_stream really wrote.                 *)
(* case = [id, st (stream), style (token -> style id), chars (decoded:        *)
(*         <<code, style id>> per written character), final (style id in      *)
(*         effect at the end), plain (codes of the default rendering)]        *)
(***************************************************************************)
EXTENDS Color, TLC, Json, IOUtils

Cases == ndJsonDeserialize(IOEnv.CASES)
VARIABLE cs
Init == cs \in 1..Len(Cases)
Next == FALSE /\ UNCHANGED cs

Pairs(xs) == [i \in 1..Len(xs) |-> <<xs[i][1], xs[i][2]>>]
Codes(xs) == [i \in 1..Len(xs) |-> xs[i][1]]

Bad(c) ==
  LET obs == Pairs(c.chars)
      spec == SpecChars(c.st, c.style)
  IN (IF Codes(obs) # c.plain THEN {"C16.strip-equals-plain"} ELSE {})
     \cup (IF Codes(obs) = Codes(spec) /\ obs # spec THEN {"C16.innermost-token-style"} ELSE {})
     \cup (IF Codes(obs) # Codes(spec) THEN {"C16.text"} ELSE {})
     \cup (IF c.final # SpecFinal THEN {"C16.final-reset"} ELSE {})

Drift(c) == Pairs(c.chars) # ImplChars(c.st, c.style) \/ c.final # ImplFinal(c.st, c.style)

Report == PrintT(<<"DONE", Cases[cs].id, Bad(Cases[cs]), Drift(Cases[cs])>>)
=============================================================================
