------------------------------ MODULE ColorMC ------------------------------
(* Model checking of the colour-stack algorithm against the abstract rule    *)
(* over ALL well-nested annotated streams up to MaxLen items (nesting <= 3). *)
EXTENDS Color, TLC

CONSTANT MaxLen

T(s) == [k |-> "t", s |-> s, n |-> 0, tok |-> 0]
Items == {T(<<97>>), T(<<32>>), T(<<98, 32>>), [k |-> "nl", s |-> <<>>, n |-> 2, tok |-> 0]}
         \cup {[k |-> "push", s |-> <<>>, n |-> 0, tok |-> t] : t \in 0..3}
         \cup {[k |-> "pop", s |-> <<>>, n |-> 0, tok |-> t] : t \in 0..3}
Style == [t \in 1..3 |-> t]

\* The streams are built item by item (the set of all functions 1..MaxLen -> Items is too large to filter):
\* every prefix that is well nested so far, nesting depth <= 3; the refinement is checked on the complete ones.
VARIABLES st, stack
Init == st = <<>> /\ stack = <<>>
Next == /\ Len(st) < MaxLen
        /\ \E it \in Items :
             /\ (it.k = "push") => Len(stack) < 3
             /\ (it.k = "pop") => (Len(stack) > 0 /\ stack[Len(stack)] = it.tok)
             /\ st' = Append(st, it)
             /\ stack' = CASE it.k = "push" -> Append(stack, it.tok)
                           [] it.k = "pop" -> SubSeq(stack, 1, Len(stack) - 1)
                           [] OTHER -> stack

Complete == Len(stack) = 0
Refines == Complete => /\ WellNested(st, 1, <<>>)
                       /\ ImplChars(st, Style) = SpecChars(st, Style)
                       /\ ImplFinal(st, Style) = SpecFinal
=============================================================================
