------------------------------ MODULE ColorMC ------------------------------
(* Model checking of the colour-stack algorithm against the abstract rule    *)
(* over ALL well-nested annotated streams up to MaxLen items (nesting <= 3). *)
EXTENDS Color, TLC

CONSTANT MaxLen

T(s) == [k |-> "t", s |-> s, n |-> 0, tok |-> 0]
Items == {T(<<97>>), T(<<32>>), T(<<98, 32>>), [k |-> "nl", s |-> <<>>, n |-> 2, tok |-> 0]}
         \cup {[k |-> "push", s |-> <<>>, n |-> 0, tok |-> t] : t \in 0..3}
         \cup {[k |-> "pop", s |-> <<>>, n |-> 0, tok |-> t] : t \in 0..3}
Style == [t \in 1..3 |-> t]

VARIABLE st
Init == st \in {s \in UNION {[1..n -> Items] : n \in 0..MaxLen} : WellNested(s, 1, <<>>) /\ Depth(s, 1, 0, 0) <= 3}
Next == FALSE /\ UNCHANGED st

Refines == /\ ImplChars(st, Style) = SpecChars(st, Style)
           /\ ImplFinal(st, Style) = SpecFinal
=============================================================================
