---------------------------- MODULE StrSplitFn ----------------------------
(***************************************************************************)
(* The pure part of the str_to_lines model: character classes, escaped       *)
(* widths, re.split, and the splitter as a FUNCTION (Lines) so that other     *)
(* specifications (Printers.tla) can compose it.  StrSplit.tla is the same    *)
(* loop as a state machine (one action per branch) and model-checks that the  *)
(* machine and this function agree (FnAgrees).                                *)
(***************************************************************************)
EXTENDS Naturals, Integers, Sequences, FiniteSets

QS == "single"
QD == "double"

IsWs(c) == c \in {2, 3}
IsWord(c, bytes) == c = 1 \/ (c = 7 /\ ~bytes)
EscW(c, q, bytes) ==
  CASE c \in {1, 2, 9, 10} -> 1
    [] c \in {3, 6} -> 2
    [] c = 4 -> IF q = QS THEN 2 ELSE 1
    [] c = 5 -> IF q = QD THEN 2 ELSE 1
    [] c = 7 -> IF bytes THEN 4 ELSE 1
    [] c = 8 -> 4

RECURSIVE EscLen(_, _, _)
EscLen(str, q, bytes) == IF Len(str) = 0 THEN 0 ELSE EscW(Head(str), q, bytes) + EscLen(Tail(str), q, bytes)

\* re.split with one capturing group: alternating non-separator / separator runs,
\* starting (and ending) with a possibly empty non-separator run
RECURSIVE SplitRuns(_, _, _, _, _)
SplitRuns(str, i, sepSet, cur, acc) ==
  IF i > Len(str) THEN Append(acc, cur)
  ELSE LET c == str[i]
           inSep == Len(acc) % 2 = 1        \* we are inside a separator run
       IN IF (c \in sepSet) = inSep THEN SplitRuns(str, i + 1, sepSet, Append(cur, c), acc)
          ELSE SplitRuns(str, i + 1, sepSet, <<c>>, Append(acc, cur))

WsSet == {2, 3}
NonWordSet(bytes) == {c \in 1..10 : ~IsWord(c, bytes)}
Parts(str, bytes, path) ==
  IF path THEN SplitRuns(str, 1, {10}, <<>>, <<>>)
  ELSE IF \E i \in 1..Len(str) : IsWs(str[i]) THEN SplitRuns(str, 1, WsSet, <<>>, <<>>)
  ELSE SplitRuns(str, 1, NonWordSet(bytes), <<>>, <<>>)

RECURSIVE Concat(_)
Concat(ss) == IF Len(ss) = 0 THEN <<>> ELSE Head(ss) \o Concat(Tail(ss))


-----------------------------------------------------------------------------
(* the loop of str_to_lines as a function of a record state                   *)
\* st = [parts, pi, np, nws, cur, ccount, clen, lines]
RECURSIVE SLoop(_, _, _, _)
SLoop(q, bytes, maxLen, st) ==
  IF Len(st.np) = 0
  THEN \* fetch the next part (or finish)
       IF st.pi > Len(st.parts)
       THEN (IF st.ccount > 0 THEN Append(st.lines, st.cur) ELSE st.lines)
       ELSE SLoop(q, bytes, maxLen, [st EXCEPT !.np = st.parts[st.pi], !.nws = (st.pi % 2 = 0), !.pi = @ + 1])
  ELSE LET total == st.clen + EscLen(st.np, q, bytes)
           flush == [st EXCEPT !.lines = Append(@, st.cur), !.cur = <<>>, !.ccount = 0, !.clen = 0]
       IN IF total = maxLen
          THEN (IF ~st.nws /\ st.ccount > 1
                THEN SLoop(q, bytes, maxLen, flush)
                ELSE SLoop(q, bytes, maxLen, [st EXCEPT !.lines = Append(@, st.cur \o st.np), !.cur = <<>>,
                                                        !.ccount = 0, !.clen = 0, !.np = <<>>]))
          ELSE IF total > maxLen
          THEN (IF ~st.nws /\ st.ccount > 0
                THEN SLoop(q, bytes, maxLen, flush)
                ELSE LET remaining == maxLen - st.clen
                         at == IF remaining > 0 THEN (IF remaining < Len(st.np) THEN remaining ELSE Len(st.np)) ELSE 0
                         this == SubSeq(st.np, 1, at)
                         rest == SubSeq(st.np, at + 1, Len(st.np))
                         cnt == st.ccount + (IF Len(this) > 0 THEN 1 ELSE 0)
                     IN SLoop(q, bytes, maxLen, [st EXCEPT !.lines = IF cnt > 0 THEN Append(@, st.cur \o this) ELSE @,
                                                           !.np = rest, !.cur = <<>>, !.ccount = 0, !.clen = 0]))
          ELSE SLoop(q, bytes, maxLen, [st EXCEPT !.cur = @ \o st.np, !.ccount = @ + 1, !.clen = total, !.np = <<>>])

\* list(str_to_lines(max_len, quote, s, pattern)) on class strings
Lines(str, bytes, path, q, maxLen) ==
  IF Len(str) <= maxLen THEN (IF Len(str) > 0 THEN <<str>> ELSE <<>>)
  ELSE SLoop(q, bytes, maxLen, [parts |-> Parts(str, bytes, path), pi |-> 1, np |-> <<>>, nws |-> FALSE,
                                cur |-> <<>>, ccount |-> 0, clen |-> 0, lines |-> <<>>])
=============================================================================
