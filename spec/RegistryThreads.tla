--------------------------- MODULE RegistryThreads ---------------------------
(***************************************************************************)
(* Property C20: concurrent pformat calls.                                  *)
(*                                                                         *)
(* The dispatch path of prettyprinter.py split at SOURCE-LINE granularity,   *)
(* one action per line that reads or writes shared state:                    *)
(*                                                                         *)
(*   pretty_python_value -> is_registered(type, True, True, True):           *)
(*     Acquire   with _DEFERRED_LOCK:                (only if Locking)       *)
(*     Check     if deferred_key in _DEFERRED_DISPATCH_BY_NAME               *)
(*     Pop       fn = _DEFERRED_DISPATCH_BY_NAME.pop(key)   (KeyError!)      *)
(*     Reg       register_pretty(candidate)(fn)                              *)
(*     NextC     next candidate of the MRO / leave the loop                  *)
(*     Release   end of the with block                (only if Locking)      *)
(*   Dispatch   pretty_dispatch(value, ctx): functools' dispatch is ONE      *)
(*              atomic action (threads switch only at line boundaries        *)
(*              inside the package)                                          *)
(*                                                                         *)
(* Scenario: K registered lazily by name (printer 1), KS(K) a subclass,      *)
(* R registered by class (printer 2), U unregistered.                        *)
(* Abstract requirement (Safe): no call raises and every finished call       *)
(* returns what it returns when the calls run one after another (Expected).  *)
(* With Locking = FALSE TLC finds both races (KeyError between Check and     *)
(* Pop; silent repr fallback between Pop and Reg).                           *)
(***************************************************************************)
EXTENDS Naturals, Integers, Sequences, FiniteSets, TLC

CONSTANTS NThreads, Locking, MaxJobs

Threads == 1..NThreads
Classes == {"K", "KS", "R", "U"}
Mro == [c \in Classes |-> CASE c = "K" -> <<"K">>
                            [] c = "KS" -> <<"KS", "K">>
                            [] c = "R" -> <<"R">>
                            [] c = "U" -> <<"U">>]
Expected == [c \in Classes |-> CASE c \in {"K", "KS"} -> 1 [] c = "R" -> 2 [] c = "U" -> 0]

VARIABLES direct,    \* pretty_dispatch.registry
          deferred,  \* _DEFERRED_DISPATCH_BY_NAME
          lock,      \* owner of _DEFERRED_LOCK (0 = free)
          prog,      \* prog[t]: the classes whose instances thread t prints, in order
          job,       \* index of the current call of t
          pc, k, fn, found,
          results    \* results[t]: printer ids returned so far, -1 = raised
shared == <<direct, deferred, lock>>
vars == <<direct, deferred, lock, prog, job, pc, k, fn, found, results>>

RECURSIVE SeqsUpTo(_, _)
SeqsUpTo(S, n) == IF n = 0 THEN {<<>>}
                  ELSE LET r == SeqsUpTo(S, n - 1) IN r \cup {Append(x, c) : x \in r, c \in S}
ProgSet == SeqsUpTo(Classes, MaxJobs) \ {<<>>}

Init == /\ direct = [c \in Classes |-> IF c = "R" THEN 2 ELSE 0]
        /\ deferred = [c \in Classes |-> IF c = "K" THEN 1 ELSE 0]
        /\ lock = 0
        /\ prog \in [Threads -> ProgSet]
        /\ job = [t \in Threads |-> 1]
        /\ pc = [t \in Threads |-> "idle"]
        /\ k = [t \in Threads |-> 1]
        /\ fn = [t \in Threads |-> 0]
        /\ found = [t \in Threads |-> FALSE]
        /\ results = [t \in Threads |-> <<>>]

Cls(t) == prog[t][job[t]]
Cand(t) == Mro[Cls(t)][k[t]]

Start(t) == /\ pc[t] = "idle" /\ job[t] <= Len(prog[t])
            /\ pc' = [pc EXCEPT ![t] = IF Locking THEN "acquire" ELSE "check"]
            /\ k' = [k EXCEPT ![t] = 1] /\ found' = [found EXCEPT ![t] = FALSE]
            /\ UNCHANGED <<direct, deferred, lock, prog, job, fn, results>>

Acquire(t) == /\ pc[t] = "acquire" /\ lock = 0
              /\ lock' = t /\ pc' = [pc EXCEPT ![t] = "check"]
              /\ UNCHANGED <<direct, deferred, prog, job, k, fn, found, results>>

Check(t) == /\ pc[t] = "check"
            /\ IF deferred[Cand(t)] # 0
               THEN pc' = [pc EXCEPT ![t] = "pop"] /\ found' = [found EXCEPT ![t] = TRUE]
               ELSE pc' = [pc EXCEPT ![t] = "next"] /\ UNCHANGED found
            /\ UNCHANGED <<direct, deferred, lock, prog, job, k, fn, results>>

\* dict.pop(key) without default: KeyError when another thread popped it first;
\* the exception leaves the with block (the lock is released) and the call
Pop(t) == /\ pc[t] = "pop"
          /\ IF deferred[Cand(t)] = 0
             THEN /\ results' = [results EXCEPT ![t] = Append(@, -1)]
                  /\ lock' = IF lock = t THEN 0 ELSE lock
                  /\ job' = [job EXCEPT ![t] = @ + 1]
                  /\ pc' = [pc EXCEPT ![t] = "idle"]
                  /\ UNCHANGED <<direct, deferred, prog, k, fn, found>>
             ELSE /\ fn' = [fn EXCEPT ![t] = deferred[Cand(t)]]
                  /\ deferred' = [deferred EXCEPT ![Cand(t)] = 0]
                  /\ pc' = [pc EXCEPT ![t] = "reg"]
                  /\ UNCHANGED <<direct, lock, prog, job, k, found, results>>

Reg(t) == /\ pc[t] = "reg"
          /\ direct' = [direct EXCEPT ![Cand(t)] = fn[t]]
          /\ pc' = [pc EXCEPT ![t] = "next"]
          /\ UNCHANGED <<deferred, lock, prog, job, k, fn, found, results>>

NextC(t) == /\ pc[t] = "next"
            /\ IF k[t] < Len(Mro[Cls(t)])
               THEN k' = [k EXCEPT ![t] = @ + 1] /\ pc' = [pc EXCEPT ![t] = "check"]
               ELSE UNCHANGED k /\ pc' = [pc EXCEPT ![t] = IF Locking THEN "release" ELSE "dispatch"]
            /\ UNCHANGED <<direct, deferred, lock, prog, job, fn, found, results>>

Release(t) == /\ pc[t] = "release" /\ lock = t
              /\ lock' = 0 /\ pc' = [pc EXCEPT ![t] = "dispatch"]
              /\ UNCHANGED <<direct, deferred, prog, job, k, fn, found, results>>

FirstReg(c) == LET m == Mro[c]
                   idx == {j \in 1..Len(m) : direct[m[j]] # 0}
               IN IF idx = {} THEN 0 ELSE direct[m[CHOOSE j \in idx : \A j2 \in idx : j <= j2]]

DoDispatch(t) == /\ pc[t] = "dispatch"
                 /\ results' = [results EXCEPT ![t] = Append(@, FirstReg(Cls(t)))]
                 /\ job' = [job EXCEPT ![t] = @ + 1]
                 /\ pc' = [pc EXCEPT ![t] = "idle"]
                 /\ UNCHANGED <<direct, deferred, lock, prog, k, fn, found>>

Silent(t) == Start(t) \/ Acquire(t) \/ Check(t) \/ NextC(t) \/ Release(t)
Visible(t) == Pop(t) \/ Reg(t) \/ DoDispatch(t)
Next == \E t \in Threads : Silent(t) \/ Visible(t)

-----------------------------------------------------------------------------
(* the property                                                             *)
Safe == \A t \in Threads : \A j \in 1..Len(results[t]) : results[t][j] = Expected[prog[t][j]]

\* design-level facts used by the argument
MutualExclusion == Locking =>
   Cardinality({t \in Threads : pc[t] \in {"check", "pop", "reg", "next", "release"}}) <= 1
LockConsistent == (lock # 0) => pc[lock] \in {"check", "pop", "reg", "next", "release"}
NeverLost == \A c \in Classes : Expected[c] # 0 =>
               (\E j \in 1..Len(Mro[c]) : deferred[Mro[c][j]] # 0 \/ direct[Mro[c][j]] # 0
                  \/ \E t \in Threads : pc[t] = "reg" /\ Cand(t) = Mro[c][j])

AllDone == \A t \in Threads : pc[t] = "idle" /\ job[t] > Len(prog[t])
\* no deadlock other than termination
NoStuck == AllDone \/ ENABLED Next
=============================================================================
