------------------------------- MODULE Config -------------------------------
(***************************************************************************)
(* Configuration layers and entry points (property C18).                    *)
(*   __init__.py  _default_config, _merge_defaults, set_default_config,      *)
(*                get_default_config, pformat / pprint / cpprint,            *)
(*                pretty_repr, PrettyPrinter                                 *)
(*                                                                         *)
(* ABSTRACT rule: effective settings = explicit arguments over the current   *)
(* defaults; every entry point produces the text pformat produces with the   *)
(* effective settings passed explicitly (pprint/cpprint: followed by `end`); *)
(* set_default_config changes exactly the keys it is given.                  *)
(*                                                                         *)
(* Settings maps are sequences of <<key, value>> pairs; None is -1; booleans *)
(* are 0/1.                                                                  *)
(***************************************************************************)
EXTENDS Naturals, Integers, Sequences, FiniteSets

Keys == <<"indent", "width", "depth", "ribbon_width", "max_seq_len", "sort_dict_keys">>
KeySet == {Keys[i] : i \in 1..Len(Keys)}
\* set_default_config has no `indent` parameter
Settable == KeySet \ {"indent"}

Dom == [k \in KeySet |->
          CASE k = "indent" -> {2, 4}
            [] k = "width" -> {24, 79}
            [] k = "depth" -> {-1, 8}
            [] k = "ribbon_width" -> {16, 71}
            [] k = "max_seq_len" -> {1000, 2}
            [] k = "sort_dict_keys" -> {0, 1}]

Defaults0 == [k \in KeySet |->
                CASE k = "indent" -> 4 [] k = "width" -> 79 [] k = "depth" -> -1
                  [] k = "ribbon_width" -> 71 [] k = "max_seq_len" -> 1000 [] k = "sort_dict_keys" -> 0]

Has(m, k) == \E i \in 1..Len(m) : m[i][1] = k
Get(m, k) == m[CHOOSE i \in 1..Len(m) : m[i][1] = k][2]
WellFormed(m, allowed) ==
  /\ \A i \in 1..Len(m) : m[i][1] \in allowed
  /\ \A i, j \in 1..Len(m) : m[i][1] = m[j][1] => i = j

\* explicit over defaults (the sentinel merge)
Effective(defs, explicit) == [k \in KeySet |-> IF Has(explicit, k) THEN Get(explicit, k) ELSE defs[k]]

\* set_default_config(**m): exactly the given keys change
SetDefault(defs, m) == [k \in KeySet |-> IF Has(m, k) THEN Get(m, k) ELSE defs[k]]

Entries == {"pformat", "pprint", "cpprint", "pretty_repr", "PrettyPrinter.pformat", "PrettyPrinter.pprint"}
\* which explicit arguments an entry point receives (pretty_repr takes none)
Passed(entry, explicit) == IF entry = "pretty_repr" THEN <<>> ELSE explicit
\* text appended after the rendering
Ending(entry, end) == IF entry \in {"pprint", "cpprint"} THEN end
                      ELSE IF entry = "PrettyPrinter.pprint" THEN "\n" ELSE ""
AsMap(f) == [i \in 1..Len(Keys) |-> <<Keys[i], f[Keys[i]]>>]
=============================================================================
