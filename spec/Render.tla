------------------------------- MODULE Render -------------------------------
(***************************************************************************)
(* render.py (default_render_to_stream / as_lines).                         *)
(*                                                                         *)
(* ABSTRACT clause (C04.render): the rendered text differs from the text of *)
(* the SDoc stream only by deleted trailing blanks at line ends.            *)
(* CONCRETE machine: as_lines, then rstrip() of the LAST text fragment of   *)
(* every line, then newline + indent * separator for SLine.                 *)
(*                                                                         *)
(* Text is a sequence of code points; cases carry                           *)
(*   obs      : <<[k, n, s]...>>  k \in {"t","nl","push","pop"}, s = codes  *)
(*   rendered : codes written by the real renderer                          *)
(***************************************************************************)
EXTENDS Naturals, Integers, Sequences, TLC, Json, IOUtils

Cases == ndJsonDeserialize(IOEnv.CASES)

NLc == 10
SP == 32
IsBlank(ch) == ch \in {32, 9, 10, 11, 12, 13, 28, 29, 30, 31, 133, 160}

Spaces(n) == [i \in 1..n |-> SP]

RECURSIVE RStrip(_)
RStrip(s) == IF Len(s) > 0 /\ IsBlank(s[Len(s)]) THEN RStrip(SubSeq(s, 1, Len(s) - 1)) ELSE s

-----------------------------------------------------------------------------
(* the text denoted by a stream, as a sequence of lines                     *)
RECURSIVE StreamLines(_, _, _, _)
StreamLines(obs, p, cur, acc) ==
  IF p > Len(obs) THEN Append(acc, cur)
  ELSE IF obs[p].k = "t" THEN StreamLines(obs, p + 1, cur \o obs[p].s, acc)
  ELSE IF obs[p].k = "nl" THEN StreamLines(obs, p + 1, Spaces(obs[p].n), Append(acc, cur))
  ELSE StreamLines(obs, p + 1, cur, acc)

RECURSIVE SplitLines(_, _, _, _)
SplitLines(txt, p, cur, acc) ==
  IF p > Len(txt) THEN Append(acc, cur)
  ELSE IF txt[p] = NLc THEN SplitLines(txt, p + 1, <<>>, Append(acc, cur))
  ELSE SplitLines(txt, p + 1, Append(cur, txt[p]), acc)

IsTrimOf(r, l) ==   \* r is l with some trailing blanks deleted
  /\ Len(r) <= Len(l)
  /\ SubSeq(l, 1, Len(r)) = r
  /\ \A i \in (Len(r) + 1)..Len(l) : IsBlank(l[i])

RenderOK(obs, rendered) ==
  IF Len(obs) = 0 THEN rendered = <<>>
  ELSE LET sl == StreamLines(obs, 1, <<>>, <<>>)
           rl == SplitLines(rendered, 1, <<>>, <<>>)
       IN /\ Len(sl) = Len(rl)
          /\ \A i \in 1..Len(sl) : IsTrimOf(rl[i], sl[i])

-----------------------------------------------------------------------------
(* concrete renderer                                                        *)
RECURSIVE LastTextIdx(_, _, _)
\* index of the last text fragment of the line starting at p (0 if none)
LastTextIdx(obs, p, best) ==
  IF p > Len(obs) THEN best
  ELSE IF obs[p].k = "nl" THEN best
  ELSE LastTextIdx(obs, p + 1, IF obs[p].k = "t" THEN p ELSE best)

RECURSIVE RenderI(_, _, _, _)
\* lastIdx = index of the fragment to strip on the current line
RenderI(obs, p, lastIdx, out) ==
  IF p > Len(obs) THEN out
  ELSE IF obs[p].k = "t"
       THEN RenderI(obs, p + 1, lastIdx, out \o (IF p = lastIdx THEN RStrip(obs[p].s) ELSE obs[p].s))
  ELSE IF obs[p].k = "nl"
       THEN RenderI(obs, p + 1, LastTextIdx(obs, p + 1, 0), (out \o <<NLc>>) \o Spaces(obs[p].n))
  ELSE RenderI(obs, p + 1, lastIdx, out)

RenderImpl(obs) == RenderI(obs, 1, LastTextIdx(obs, 1, 0), <<>>)

-----------------------------------------------------------------------------
VARIABLE cs
Init == cs \in 1..Len(Cases)
Next == FALSE /\ UNCHANGED cs

Report ==
  LET c == Cases[cs]
      impl == RenderImpl(c.obs)
  IN /\ RenderOK(c.obs, c.rendered) => PrintT(<<"ACCEPT", c.id>>)
     /\ (impl # c.rendered) => PrintT(<<"DRIFT", c.id>>)
     /\ RenderOK(c.obs, impl) => PrintT(<<"IMPLOK", c.id>>)
=============================================================================
