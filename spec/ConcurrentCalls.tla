--------------------------- MODULE ConcurrentCalls ---------------------------
(***************************************************************************)
(* C20, second scenario family: concurrent pformat calls whose threads are   *)
(* switched at line boundaries of the LAYOUT engine (layout.py) instead of   *)
(* the dispatch path.  No shared state is supposed to exist there at all, so *)
(* the abstract requirement is the whole specification: every call returns   *)
(* the text it returns when the calls run one after another, none raises.    *)
(* case = [id, calls : <<[t, seq (id of the sequential text), got (id of the  *)
(*         text returned, -1 = raised)]>>]                                    *)
(***************************************************************************)
EXTENDS Naturals, Integers, Sequences, TLC, Json, IOUtils

Cases == ndJsonDeserialize(IOEnv.CASES)
VARIABLE cs
Init == cs \in 1..Len(Cases)
Next == FALSE /\ UNCHANGED cs

Safe(c) == \A i \in 1..Len(c.calls) : c.calls[i].got = c.calls[i].seq
Report == Safe(Cases[cs]) => PrintT(<<"SAFE", Cases[cs].id>>)
=============================================================================
