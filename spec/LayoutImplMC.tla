--------------------------- MODULE LayoutImplMC ---------------------------
(***************************************************************************)
(* Step-wise model checking of the CONCRETE layout engine (LayoutImpl):     *)
(* one TLC state per iteration of best_layout's while loop, for every       *)
(* document of the bounded universe x width x ribbon x strategy.            *)
(*                                                                         *)
(* Checked here (design level):                                             *)
(*   Decreasing   every loop iteration strictly decreases the stack weight  *)
(*                => best_layout terminates (C12, ranking function)         *)
(*   NormShrinks  normalisation at most doubles the weight, is idempotent    *)
(*   ColOK        the output column is never negative and equals the        *)
(*                column implied by the emitted stream                      *)
(*   ModesOK      stack modes are BREAK/FLAT, annotation pops balanced      *)
(***************************************************************************)
EXTENDS LayoutImpl, TLC, Json, IOUtils

Cases == ndJsonDeserialize(IOEnv.CASES)

VARIABLES cs, s
vars == <<cs, s>>

W == Cases[cs].W
R == Ribbon(Cases[cs].W, Cases[cs].fn, Cases[cs].fd)

Init == /\ cs \in 1..Len(Cases)
        /\ s = InitI(Cases[cs].term)

Next == /\ Len(s.st) > 0
        /\ s' = StepI(Cases[cs].smart, W, R, s)
        /\ UNCHANGED cs

Decreasing == [][StackWt(s'.st, 1) < StackWt(s.st, 1)]_vars

RECURSIVE ColOf(_, _, _)
ColOf(out, p, c) ==
  IF p > Len(out) THEN c
  ELSE IF out[p].k = "t" THEN ColOf(out, p + 1, c + out[p].n)
  ELSE IF out[p].k = "nl" THEN ColOf(out, p + 1, out[p].n)
  ELSE ColOf(out, p + 1, c)

ColOK == s.col >= 0 /\ s.col = ColOf(s.out, 1, 0)

RECURSIVE Pending(_, _)
Pending(st, i) == IF i > Len(st) THEN 0
                  ELSE (IF st[i][3][1] = "pop" THEN 1 ELSE 0) + Pending(st, i + 1)
RECURSIVE Open(_, _)
Open(out, p) == IF p > Len(out) THEN 0
                ELSE (IF out[p].k = "push" THEN 1 ELSE IF out[p].k = "pop" THEN -1 ELSE 0)
                     + Open(out, p + 1)

ModesOK == /\ \A i \in 1..Len(s.st) : s.st[i][2] \in {BREAK, FLAT} /\ s.st[i][1] \in Int
           /\ Open(s.out, 1) = Pending(s.st, 1)

NormShrinks ==
  LET t == Cases[cs].term
      n == NormDoc(t)
  IN /\ Wt(n) <= 2 * Wt(t)
     /\ NormDoc(n) = n \/ n[1] = "fc"
     /\ (n[1] = "fc" => n[4] = 1)

Done == (Len(s.st) = 0) => PrintT(<<"OUT", Cases[cs].id, Len(s.out)>>)
=============================================================================
