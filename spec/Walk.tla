-------------------------------- MODULE Walk --------------------------------
(***************************************************************************)
(* The printer traversal (properties C13, C14; invocation counts for C12).   *)
(*   prettyprinter.py  _run_pretty: is_visited / start_visit / printer /     *)
(*                     end_visit;  _pretty_recursion;  the try/except that    *)
(*                     turns a failing printer into repr(value) + warning     *)
(*                                                                         *)
(* An object graph is a node table: graph[n] = [k, c] with                   *)
(*   k \in {"list", "dict", "tuple", "obj"} and c a sequence of references:   *)
(*   r > 0 is node r, r < 0 is the int leaf -r.  A dict node {100+i: c[i]};   *)
(*   an "obj" node is an instance of a user type printed with                 *)
(*   pretty_call(ctx, U, *children) whose repr() is the identifier U_n<id>.   *)
(*                                                                         *)
(* Output skeletons are PRE-ORDER token sequences:                           *)
(*   <<"list", n>> <<"dict", n>> <<"tuple", n>> <<"call", n>> <<"int", v>>    *)
(*   <<"rec", kind, node>>   the marker <Recursion on T with id=..>           *)
(*   <<"repr", node>>        the repr() fallback of a failed printer          *)
(*                                                                         *)
(* ABSTRACT (the property):  Unfold -- DFS from the root; a reference to a    *)
(* node that is on the current path becomes a marker, everything else is      *)
(* expanded (shared nodes every time); the `fault`-th invocation of the user  *)
(* printer (0 = none) is replaced by <<"repr", node>> and nothing else        *)
(* changes.  CONCRETE: the visit-bracket machine below; Inv: visited = nodes  *)
(* with a pending Exit; at the end visited = {}.                              *)
(***************************************************************************)
EXTENDS Naturals, Integers, Sequences, FiniteSets, TLC

\* ---------- abstract: Unfold as a function (threads the invocation counter)
\* result = [out |-> tokens, inv |-> counter]
RECURSIVE UnfoldRef(_, _, _, _, _), UnfoldSeq(_, _, _, _, _, _)

Header(nd) == IF nd.k = "obj" THEN <<"call", Len(nd.c)>> ELSE <<nd.k, Len(nd.c)>>

UnfoldSeq(graph, refs, i, path, fault, acc) ==
  IF i > Len(refs) THEN acc
  ELSE LET r == UnfoldRef(graph, refs[i], path, fault, acc.inv)
       IN UnfoldSeq(graph, refs, i + 1, path, fault, [out |-> acc.out \o r.out, inv |-> r.inv])

UnfoldRef(graph, ref, path, fault, inv) ==
  IF ref < 0 THEN [out |-> << <<"int", -ref>> >>, inv |-> inv]
  ELSE LET nd == graph[ref] IN
       IF ref \in path THEN [out |-> << <<"rec", nd.k, ref>> >>, inv |-> inv]
       ELSE IF nd.k = "obj" /\ inv + 1 = fault
            THEN [out |-> << <<"repr", ref>> >>, inv |-> inv + 1]
       ELSE LET inv2 == IF nd.k = "obj" THEN inv + 1 ELSE inv
                keyed == IF nd.k = "dict"
                         THEN [j \in 1..(2 * Len(nd.c)) |-> IF j % 2 = 1 THEN -(100 + (j + 1) \div 2) ELSE nd.c[j \div 2]]
                         ELSE nd.c
            IN UnfoldSeq(graph, keyed, 1, path \cup {ref}, fault, [out |-> <<Header(nd)>>, inv |-> inv2])

Unfold(graph, root, fault) == UnfoldRef(graph, root, {}, fault, 0)

-----------------------------------------------------------------------------
\* ---------- concrete: the visit-bracket machine (pure step function)
\* state = [work, visited, out, inv, log, warns]
\* work items: <<"visit", ref>> | <<"exit", node>>
WInit(root) == [work |-> << <<"visit", root>> >>, visited |-> {}, out |-> <<>>, inv |-> 0,
                log |-> <<>>, warns |-> <<>>]

Pop(s) == SubSeq(s, 1, Len(s) - 1)
RevItems(refs) == [j \in 1..Len(refs) |-> <<"visit", refs[Len(refs) + 1 - j]>>] \o <<>>

WStep(graph, fault, s) ==
  LET top == s.work[Len(s.work)]
      rest == Pop(s.work)
  IN IF top[1] = "exit"
     THEN [s EXCEPT !.work = rest, !.visited = @ \ {top[2]}, !.log = Append(@, <<"end", top[2]>>)]
     ELSE LET ref == top[2] IN
          IF ref < 0 THEN [s EXCEPT !.work = rest, !.out = Append(@, <<"int", -ref>>)]
          ELSE LET nd == graph[ref] IN
               \* if ctx.is_visited(value): return _pretty_recursion(value)
               IF ref \in s.visited
               THEN [s EXCEPT !.work = rest, !.out = Append(@, <<"rec", nd.k, ref>>), !.log = Append(@, <<"hit", ref>>)]
               \* ctx.start_visit(value); try: doc = pretty_fn(value, ctx) except Exception: warn; doc = repr(value)
               \* ctx.end_visit(value)
               ELSE IF nd.k = "obj" /\ s.inv + 1 = fault
                    THEN [s EXCEPT !.work = rest, !.inv = @ + 1, !.out = Append(@, <<"repr", ref>>),
                                   !.warns = Append(@, ref),
                                   !.log = (@ \o << <<"start", ref>>, <<"end", ref>> >>)]
               ELSE LET keyed == IF nd.k = "dict"
                                 THEN [j \in 1..(2 * Len(nd.c)) |->
                                         IF j % 2 = 1 THEN -(100 + (j + 1) \div 2) ELSE nd.c[j \div 2]]
                                 ELSE nd.c
                    IN [s EXCEPT !.work = (rest \o << <<"exit", ref>> >>) \o RevItems(keyed),
                                 !.visited = @ \cup {ref},
                                 !.inv = IF nd.k = "obj" THEN @ + 1 ELSE @,
                                 !.out = Append(@, Header(nd)),
                                 !.log = Append(@, <<"start", ref>>)]

RECURSIVE WRun(_, _, _)
WRun(graph, fault, s) == IF Len(s.work) = 0 THEN s ELSE WRun(graph, fault, WStep(graph, fault, s))

PendingExits(s) == {s.work[i][2] : i \in {j \in 1..Len(s.work) : s.work[j][1] = "exit"}}
=============================================================================
