------------------------------ MODULE ConfigMC ------------------------------
(* All reachable default configurations under set_default_config, and       *)
(* emission of call histories for replay (Emit).                             *)
EXTENDS Config, TLC, Json

CONSTANTS Emit, HistLen

VARIABLES defs, h, nsets
vars == <<defs, h, nsets>>

\* all partial maps over a set of keys with values from Dom
RECURSIVE Maps(_)
Maps(ks) == IF ks = {} THEN {<<>>}
            ELSE LET k == CHOOSE x \in ks : TRUE
                     rest == Maps(ks \ {k})
                 IN rest \cup {Append(m, <<k, v>>) : m \in rest, v \in Dom[k]}

SetMaps == Maps(Settable)
CallMaps == Maps(KeySet)
Ends == {"\n", "", "X"}

Init == defs = Defaults0 /\ h = <<>> /\ nsets = 0

Set(m) == /\ nsets < 2
          /\ defs' = SetDefault(defs, m) /\ nsets' = nsets + 1
          /\ h' = IF Emit THEN Append(h, [op |-> "set", args |-> m]) ELSE h

Call(entry, m, end) ==
  /\ UNCHANGED <<defs, nsets>>
  /\ h' = IF Emit THEN Append(h, [op |-> "call", entry |-> entry, args |-> m, end |-> end]) ELSE h

Next == /\ Emit => Len(h) < HistLen
        /\ \/ \E m \in SetMaps : Set(m)
           \/ Emit /\ \E e \in Entries, m \in CallMaps, end \in Ends : Call(e, m, end)

TypeOK == \A k \in KeySet : defs[k] \in Dom[k] \cup {Defaults0[k]}
\* set_default_config never touches indent
IndentFixed == defs["indent"] = Defaults0["indent"]
\* merge law: explicit wins, everything else is the default
MergeLaw == \A m \in CallMaps : \A k \in KeySet :
              Effective(defs, m)[k] = IF Has(m, k) THEN Get(m, k) ELSE defs[k]
EmitHist == (Emit /\ Len(h) = HistLen) => PrintT(<<"H", ToJson(h)>>)
=============================================================================
