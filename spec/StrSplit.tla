------------------------------ MODULE StrSplit ------------------------------
(***************************************************************************)
(* prettyprinter.py: str_to_lines (the greedy string splitter), property     *)
(* C02 (and the termination half of C12).                                    *)
(*                                                                         *)
(* Strings are sequences of CHARACTER CLASSES; a class fixes how the three   *)
(* things the splitter looks at behave: \s, \W and the escaped width under   *)
(* either quote (measured against re and repr on CPython; additive):         *)
(*    1 letter 'a'        word          1 / 1                                *)
(*    2 space             \s \W         1 / 1                                *)
(*    3 newline           \s \W         2 / 2                                *)
(*    4 single quote      \W            2 in '..' / 1 in ".."                *)
(*    5 double quote      \W            1 / 2                                *)
(*    6 backslash         \W            2 / 2                                *)
(*    7 non-ASCII: str 'é' is a word char of width 1; bytes \xff is \W, 4    *)
(*    8 NUL               \W            4 / 4                                *)
(*    9 '-'               \W            1 / 1                                *)
(*   10 '/'               \W            1 / 1   (separator of the path pattern)*)
(*                                                                         *)
(* ABSTRACT clauses:  Concat(lines) = s,  no empty line,  termination        *)
(* (Variant decreases).  CONCRETE: one action per branch of the while loop.  *)
(***************************************************************************)
EXTENDS StrSplitFn, TLC

CONSTANTS MaxStrLen, MaxMaxLen, Alphabet

-----------------------------------------------------------------------------
VARIABLES s, bytes, path, q, maxLen,     \* inputs
          pc, parts, pi, np, nws, cur, ccount, clen, lines
vars == <<s, bytes, path, q, maxLen, pc, parts, pi, np, nws, cur, ccount, clen, lines>>
inputs == <<s, bytes, path, q, maxLen>>

Strings == UNION {[1..n -> Alphabet] : n \in 0..MaxStrLen}

Init == /\ s \in Strings /\ bytes \in BOOLEAN /\ path \in BOOLEAN /\ q \in {QS, QD}
        /\ maxLen \in 1..MaxMaxLen
        /\ pc = "start" /\ parts = <<>> /\ pi = 1 /\ np = <<>> /\ nws = FALSE
        /\ cur = <<>> /\ ccount = 0 /\ clen = 0 /\ lines = <<>>

\* if len(s) <= max_len: yield s if non-empty; return
Short == /\ pc = "start" /\ Len(s) <= maxLen
         /\ lines' = IF Len(s) > 0 THEN <<s>> ELSE <<>>
         /\ pc' = "done"
         /\ UNCHANGED <<inputs, parts, pi, np, nws, cur, ccount, clen>>

Split == /\ pc = "start" /\ Len(s) > maxLen
         /\ parts' = Parts(s, bytes, path) /\ pc' = "fetch"
         /\ UNCHANGED <<inputs, pi, np, nws, cur, ccount, clen, lines>>

\* if not next_part: next(tagged_alternating) / StopIteration -> final flush
Fetch == /\ pc = "fetch"
         /\ IF Len(np) > 0 THEN pc' = "branch" /\ UNCHANGED <<pi, np, nws, lines>>
            ELSE IF pi > Len(parts)
                 THEN /\ pc' = "done"
                      /\ lines' = IF ccount > 0 THEN Append(lines, cur) ELSE lines
                      /\ UNCHANGED <<pi, np, nws>>
                 ELSE /\ np' = parts[pi] /\ nws' = (pi % 2 = 0) /\ pi' = pi + 1
                      /\ pc' = IF Len(parts[pi]) = 0 THEN "fetch" ELSE "branch"
                      /\ UNCHANGED lines
         /\ UNCHANGED <<inputs, parts, cur, ccount, clen>>

NLen == EscLen(np, q, bytes)
Total == clen + NLen           \* curr_line_len += next_escaped_len

\* == max_len, word part, more than one part collected: flush, keep next_part
EqFlush == /\ pc = "branch" /\ Total = maxLen /\ ~nws /\ ccount > 1
           /\ lines' = Append(lines, cur) /\ cur' = <<>> /\ ccount' = 0 /\ clen' = 0
           /\ pc' = "fetch" /\ UNCHANGED <<inputs, parts, pi, np, nws>>
\* == max_len otherwise: the line takes next_part
EqTake == /\ pc = "branch" /\ Total = maxLen /\ ~(~nws /\ ccount > 1)
          /\ lines' = Append(lines, cur \o np) /\ cur' = <<>> /\ ccount' = 0 /\ clen' = 0
          /\ np' = <<>> /\ pc' = "fetch" /\ UNCHANGED <<inputs, parts, pi, nws>>
\* > max_len, word part and something collected: flush, keep next_part
OverFlush == /\ pc = "branch" /\ Total > maxLen /\ ~nws /\ ccount > 0
             /\ lines' = Append(lines, cur) /\ cur' = <<>> /\ ccount' = 0 /\ clen' = 0
             /\ pc' = "fetch" /\ UNCHANGED <<inputs, parts, pi, np, nws>>
\* > max_len otherwise: hard cut of next_part at the remaining width (in characters)
OverCut == /\ pc = "branch" /\ Total > maxLen /\ ~(~nws /\ ccount > 0)
           /\ LET remaining == maxLen - clen
                  at == IF remaining > 0 THEN (IF remaining < Len(np) THEN remaining ELSE Len(np)) ELSE 0
                  this == SubSeq(np, 1, at)
                  rest == SubSeq(np, at + 1, Len(np))
                  line == cur \o this
                  cnt == ccount + (IF Len(this) > 0 THEN 1 ELSE 0)
              IN /\ lines' = IF cnt > 0 THEN Append(lines, line) ELSE lines
                 /\ np' = rest
           /\ cur' = <<>> /\ ccount' = 0 /\ clen' = 0
           /\ pc' = "fetch" /\ UNCHANGED <<inputs, parts, pi, nws>>
\* < max_len: collect
Collect == /\ pc = "branch" /\ Total < maxLen
           /\ cur' = cur \o np /\ ccount' = ccount + 1 /\ clen' = Total
           /\ np' = <<>> /\ pc' = "fetch" /\ UNCHANGED <<inputs, parts, pi, nws, lines>>

Next == Short \/ Split \/ Fetch \/ EqFlush \/ EqTake \/ OverFlush \/ OverCut \/ Collect

-----------------------------------------------------------------------------
(* abstract clauses                                                          *)
RECURSIVE RestParts(_, _)
RestParts(ps, i) == IF i > Len(ps) THEN <<>> ELSE ps[i] \o RestParts(ps, i + 1)

\* nothing lost, duplicated or reordered -- at every step
Conservation == pc \in {"fetch", "branch"} => (Concat(lines) \o cur) \o (np \o RestParts(parts, pi)) = s
Result == pc = "done" => Concat(lines) = s
NoEmptyPiece == \A i \in 1..Len(lines) : Len(lines[i]) > 0
\* the state machine and the function StrSplitFn!Lines (used by Printers.tla) agree
FnAgrees == pc = "done" => lines = Lines(s, bytes, path, q, maxLen)
\* the accumulated line never reaches max_len before the decision
Bounded == pc \in {"fetch", "branch"} => clen < maxLen /\ clen = EscLen(cur, q, bytes)

\* termination: every loop step strictly decreases the lexicographic variant
\* <<characters not yet collected, parts collected on the current line,
\*   parts not yet fetched, phase>>
Variant == <<Len(np) + Len(RestParts(parts, pi)), ccount, Len(parts) + 1 - pi,
             CASE pc = "start" -> 3 [] pc = "branch" -> 1 [] pc = "fetch" -> 2 [] pc = "done" -> 0>>
Lt4(a, b) == \/ a[1] < b[1]
             \/ a[1] = b[1] /\ a[2] < b[2]
             \/ a[1] = b[1] /\ a[2] = b[2] /\ a[3] < b[3]
             \/ a[1] = b[1] /\ a[2] = b[2] /\ a[3] = b[3] /\ a[4] < b[4]
Progress == [][pc # "start" => Lt4(Variant', Variant)]_vars
=============================================================================
