------------------------ MODULE RegistryThreadsTrace ------------------------
(***************************************************************************)
(* Trace validation for C20: executions of the real package under the       *)
(* deterministic line-level scheduler are checked against RegistryThreads.   *)
(*                                                                         *)
(* Recorded events (in the order they became visible):                       *)
(*   [t, ev = "pop"]   the by-name entry of K disappeared during a step of t *)
(*   [t, ev = "reg"]   K appeared in the live registry during a step of t    *)
(*   [t, ev = "done", c, res]  a pformat call of t returned (res = printer   *)
(*                     id, 0 = repr) or raised (res = -1)                    *)
(* Silent spec steps (Start, Acquire, Check, NextC, Release) are inferred by *)
(* TLC.  ABSTRACT verdict = SafeTrace (every call returned the sequential    *)
(* result); CONCRETE verdict = the event sequence is a behaviour of          *)
(* RegistryThreads with the configured Locking (otherwise DRIFT).            *)
(***************************************************************************)
EXTENDS RegistryThreads, Json, IOUtils

Cases == ndJsonDeserialize(IOEnv.CASES)

VARIABLES tr, l
tvars == <<direct, deferred, lock, prog, job, pc, k, fn, found, results, tr, l>>

SafeTrace(c) == \A i \in 1..Len(c.events) :
                  c.events[i].ev = "done" => c.events[i].res = Expected[c.events[i].c]

TInit == /\ tr \in 1..Len(Cases)
         /\ l = 1
         /\ direct = [c \in Classes |-> IF c = "R" THEN 2 ELSE 0]
         /\ deferred = [c \in Classes |-> IF c = "K" THEN 1 ELSE 0]
         /\ lock = 0
         /\ prog = [t \in Threads |-> Cases[tr].progs[t]]
         /\ job = [t \in Threads |-> 1]
         /\ pc = [t \in Threads |-> "idle"]
         /\ k = [t \in Threads |-> 1]
         /\ fn = [t \in Threads |-> 0]
         /\ found = [t \in Threads |-> FALSE]
         /\ results = [t \in Threads |-> <<>>]
         /\ SafeTrace(Cases[tr]) => PrintT(<<"SAFE", Cases[tr].id>>)

Ev == Cases[tr].events[l]

TNext ==
  \/ /\ \E t \in Threads : Silent(t)
     /\ UNCHANGED <<tr, l>>
  \/ /\ l <= Len(Cases[tr].events)
     /\ l' = l + 1 /\ UNCHANGED tr
     /\ LET e == Ev IN
        \/ e.ev = "pop" /\ Pop(e.t) /\ pc'[e.t] = "reg"
        \/ e.ev = "reg" /\ Reg(e.t)
        \/ e.ev = "done" /\ DoDispatch(e.t) /\ results'[e.t][Len(results'[e.t])] = e.res
                         /\ prog[e.t][job[e.t]] = e.c
        \/ e.ev = "done" /\ e.res = -1 /\ Pop(e.t) /\ pc'[e.t] = "idle"

Accepted == (l = Len(Cases[tr].events) + 1 /\ AllDone) => PrintT(<<"ACCEPT", Cases[tr].id>>)
=============================================================================
