------------------------------- MODULE Stdlib -------------------------------
(***************************************************************************)
(* Property C07, the arithmetic-heavy part: the datetime family.            *)
(*   pretty_stdlib.py  pretty_timedelta, pretty_datetime, pretty_time,       *)
(*                     pretty_date                                           *)
(*                                                                         *)
(* The printers DROP fields (leading zero fields of datetime/time from the    *)
(* small end, zero components of timedelta) and rewrite days as               *)
(* "years * 365 + rest".  This module gives                                  *)
(*   - the boundary GRIDS of descriptors (emitted for the harness),           *)
(*   - the concrete VIEW functions (transcription of the field-dropping      *)
(*     rules) and the lemma Denote(View(x)) = x checked by TLC on the grids,  *)
(*   - DENOTATIONS of printed keyword lists, used to validate what the real   *)
(*     printers produced.                                                     *)
(* Expressions: <<"n", int>>, <<"+", a, b>>, <<"*", a, b>>.                    *)
(***************************************************************************)
EXTENDS Naturals, Integers, Sequences, FiniteSets, TLC, Json, IOUtils

RECURSIVE Eval(_)
Eval(e) == IF e[1] = "n" THEN e[2]
           ELSE IF e[1] = "+" THEN Eval(e[2]) + Eval(e[3])
           ELSE IF e[1] = "*" THEN Eval(e[2]) * Eval(e[3])
           ELSE -1

Has(kws, k) == \E i \in 1..Len(kws) : kws[i][1] = k
Get(kws, k, dflt) == IF Has(kws, k) THEN Eval(kws[CHOOSE i \in 1..Len(kws) : kws[i][1] = k][2]) ELSE dflt
Names(kws) == [i \in 1..Len(kws) |-> kws[i][1]]
NoDup(kws) == \A i, j \in 1..Len(kws) : kws[i][1] = kws[j][1] => i = j

-----------------------------------------------------------------------------
(* timedelta: descriptor = [neg, days, seconds, micros] of abs(delta)        *)
TdKeys == {"days", "hours", "minutes", "seconds", "milliseconds", "microseconds"}
TdDenote(kws) ==   \* value of timedelta(**kws) when every component is in its normal range
  IF ~NoDup(kws) \/ (\E i \in 1..Len(kws) : kws[i][1] \notin TdKeys) THEN <<-1, -1, -1>>
  ELSE LET d == Get(kws, "days", 0)
           h == Get(kws, "hours", 0)
           m == Get(kws, "minutes", 0)
           s == Get(kws, "seconds", 0)
           ms == Get(kws, "milliseconds", 0)
           us == Get(kws, "microseconds", 0)
       IN IF d < 0 \/ h \notin 0..23 \/ m \notin 0..59 \/ s \notin 0..59 \/ ms \notin 0..999 \/ us \notin 0..999
          THEN <<-1, -1, -1>>
          ELSE <<d, h * 3600 + m * 60 + s, ms * 1000 + us>>

\* concrete view (pretty_timedelta): non-zero components; days >= 365 as years * 365 + rest
TdView(days, seconds, micros) ==
  LET h == seconds \div 3600
      m == (seconds % 3600) \div 60
      s == seconds % 60
      ms == micros \div 1000
      us == micros % 1000
      y == days \div 365
      r == days % 365
      N(x) == <<"n", x>>
      dexpr == IF y = 0 THEN N(days)
               ELSE LET base == IF y > 1 THEN <<"*", N(y), N(365)>> ELSE N(365)
                    IN IF r # 0 THEN <<"+", base, N(r)>> ELSE base
      all == << <<"days", dexpr>>, <<"hours", N(h)>>, <<"minutes", N(m)>>, <<"seconds", N(s)>>,
                <<"milliseconds", N(ms)>>, <<"microseconds", N(us)>> >>
  IN SelectSeq(all, LAMBDA p : Eval(p[2]) # 0)

-----------------------------------------------------------------------------
(* datetime / time: descriptor = sequence of field values                    *)
DtFields == <<"year", "month", "day", "hour", "minute", "second", "microsecond">>
TmFields == <<"hour", "minute", "second", "microsecond">>

\* keyword list -> field values (missing = 0); positional (y, m, d) handled by the harness as keywords
FieldsDenote(fields, kws) == [i \in 1..Len(fields) |-> Get(kws, fields[i], 0)]

\* concrete view: drop the zero fields from the small end; keep the others, in big-endian order
RECURSIVE LastNonZero(_, _)
LastNonZero(vals, i) == IF i = 0 THEN 0 ELSE IF vals[i] # 0 THEN i ELSE LastNonZero(vals, i - 1)
FieldsView(fields, vals) == [i \in 1..LastNonZero(vals, Len(vals)) |-> <<fields[i], <<"n", vals[i]>>>>]

-----------------------------------------------------------------------------
CONSTANT Mode    \* "emit" | "lemma" | "validate"

TdDays == {0, 1, 364, 365, 366, 729, 730, 731, 1000, 999999999}
TdSecs == {0, 1, 59, 60, 61, 3599, 3600, 3661, 86399}
TdMicros == {0, 1, 999, 1000, 1001, 999999}
Years == {1, 2020, 9999}
Months == {1, 12}
Days == {1, 28}
Hours == {0, 1, 23}
Mins == {0, 59}
Secs == {0, 59}
Micros == {0, 1, 999999}

VARIABLES kind, d, cs
vars == <<kind, d, cs>>

Cases == IF Mode = "validate" THEN ndJsonDeserialize(IOEnv.CASES) ELSE <<>>

GridInit ==
  /\ cs = 0
  /\ \/ kind = "timedelta" /\ d \in {<<n, a, b, c>> : n \in {0, 1}, a \in TdDays, b \in TdSecs, c \in TdMicros}
     \/ kind = "datetime" /\ d \in {<<y, mo, da, h, mi, s, us>> : y \in Years, mo \in Months, da \in Days,
                                     h \in Hours, mi \in Mins, s \in Secs, us \in Micros}
     \/ kind = "time" /\ d \in {<<h, mi, s, us>> : h \in Hours, mi \in Mins, s \in Secs, us \in Micros}
  /\ (Mode = "emit") => PrintT(<<"GRID", kind, d>>)

VInit == cs \in 1..Len(Cases) /\ kind = Cases[cs].kind /\ d = Cases[cs].d

Init == IF Mode = "validate" THEN VInit ELSE GridInit
Next == FALSE /\ UNCHANGED vars

\* the lemma: what the view shows denotes the value
Lemma ==
  (cs = 0) =>
    CASE kind = "timedelta" -> TdDenote(TdView(d[2], d[3], d[4])) = <<d[2], d[3], d[4]>>
      [] kind = "datetime" -> /\ FieldsDenote(DtFields, FieldsView(DtFields, d)) = d
                              /\ Len(FieldsView(DtFields, d)) >= 3
      [] kind = "time" -> FieldsDenote(TmFields, FieldsView(TmFields, d)) = d

\* validation of what the real printers printed: case = [id, kind, d, kws, neg]
Verdict(c) ==
  CASE c.kind = "timedelta" -> /\ TdDenote(c.kws) = <<c.d[2], c.d[3], c.d[4]>>
                               /\ c.neg = (c.d[1] = 1 /\ <<c.d[2], c.d[3], c.d[4]>> # <<0, 0, 0>>)
    [] c.kind = "datetime" -> NoDup(c.kws) /\ FieldsDenote(DtFields, c.kws) = c.d
                              /\ \A i \in 1..Len(c.kws) : c.kws[i][1] \in {DtFields[j] : j \in 1..7}
    [] c.kind = "time" -> NoDup(c.kws) /\ FieldsDenote(TmFields, c.kws) = c.d
                          /\ \A i \in 1..Len(c.kws) : c.kws[i][1] \in {TmFields[j] : j \in 1..4}
Model(c) ==
  CASE c.kind = "timedelta" -> c.kws = TdView(c.d[2], c.d[3], c.d[4])
    [] c.kind = "datetime" -> c.kws = FieldsView(DtFields, c.d)
    [] c.kind = "time" -> c.kws = FieldsView(TmFields, c.d)
Report == (cs > 0) => /\ Verdict(Cases[cs]) => PrintT(<<"ACCEPT", Cases[cs].id>>)
                      /\ Model(Cases[cs]) => PrintT(<<"MODEL", Cases[cs].id>>)
=============================================================================
