----------------------------- MODULE PrintersMC -----------------------------
(* Design-level check of the concrete pipeline model (Printers + LayoutImpl):  *)
(* the value corollary of C06.  For every case [id, val, indent] TLC computes   *)
(* the unbounded-width text; when that is a single line of L columns the text   *)
(* at width = ribbon_width = L, L + 1 and 2L must be that same line.            *)
(*   <<"ONE", id, "ok" | "multi" | "skip" | "BROKEN">>                          *)
(* BROKEN on a case where the real pformat agrees with the model's texts is a   *)
(* violation found at design level; where it does not, the model has drifted.   *)
EXTENDS Printers, TLC, Json, IOUtils

Cases == ndJsonDeserialize(IOEnv.CASES)
VARIABLE cs
Init == cs \in 1..Len(Cases)
Next == FALSE /\ UNCHANGED cs

BIG == 100000
Wide(c) == Pformat(c.val, c.indent, BIG, -1, BIG, 1000)
At(c, w) == Pformat(c.val, c.indent, w, -1, w, 1000)
HasNl(t) == \E i \in 1..Len(t) : t[i] = 10

Verdict == [i \in 1..Len(Cases) |->
  LET c == Cases[i]
      one == Wide(c)
  IN IF ~one[1] THEN "skip"
     ELSE IF HasNl(one[2]) THEN "multi"
     ELSE LET L == Len(one[2])
          IN IF L = 0 THEN "ok"
             ELSE IF \A w \in {L, L + 1, 2 * L} : At(c, w) = one THEN "ok" ELSE "BROKEN"]

Report == PrintT(<<"ONE", Cases[cs].id, Verdict[cs]>>)
=============================================================================
